"""C12 — ZIP 321 payment requests round-trip and only valid requests parse.

1. TLC checks spec/Address/Zip321.tla on its own (MC_Zip321): the amount text <-> zatoshi theorems over digit
   sequences (ParseAmt(Render(z)) = z, Render(ParseAmt(s)) = normalise(s), nothing above MAX_MONEY parses),
   percent-encoding and base64url inverses, the ZIP 302 padding laws, the index grammar, and for every enumerated
   URI: lead-address equivalence, order-insensitivity, valid => the denoted payments satisfy the rules and
   re-render to a valid URI with the same meaning.
2. spec -> code (R): TLC prints every enumerated layer-1 URI with Verdict / Denote; c12_replay turns each into text
   on the three networks and runs TransactionRequest::from_uri: valid <=> accepted with exactly the denoted payments
   (amounts digit for digit) and to_uri() parsing back equal; invalid => rejected; unspecified => no panic and, when
   accepted, judged by TLC for RulesHold.
3. code -> spec (V): c12_driver builds seeded valid requests through Payment::new / TransactionRequest::new /
   from_indexed, renders them, reads the rendering with its own scanner, parses back; feeds token-generated and
   mutated URIs to from_uri; exercises MemoBytes / Memo / memo_to_base64.  TLC validates every record against
   Trace_Zip321 (the rendering must be a valid URI that *means* the request; amounts are compared as digit strings).
"""
import json
import os
import re

from . import lib

AREA = "Address"
MODULES = ["Zip321", "MC_Zip321", "Trace_Zip321"]
URI_FAMS = ["shape", "index", "amount", "memo", "pct", "addr", "struct"]
TH_FAMS = ["T_render", "T_parse", "T_pct", "T_b64", "T_memo", "T_idx"]
NETS = ["main", "test", "regtest"]
MAX_REPORTED = 3
# every refusal rule of the specification must be exercised by the enumerated cases (vacuity guard)
REQUIRED_WHY = ["scheme", "name", "index", "req-unknown", "amount", "memo-encoding", "qchar", "address", "duplicate",
                "recipient-missing", "memo-to-transparent", "zero-transparent", "empty-item", "no-equals", "name-case",
                "empty-request"]


def build():
    d = lib.cargo_build("h_core", ["c12_replay", "c12_driver"])
    return os.path.join(d, "c12_replay"), os.path.join(d, "c12_driver")


def stage(ctx):
    d = lib.stage_specs(ctx, AREA)
    for m in MODULES:
        lib.sany(os.path.join(d, m + ".tla"))
    return d


def write_mc_cfg(path, fams, maxlen, idxn, pctlen, emit, invariant):
    with open(path, "w") as f:
        f.write("SPECIFICATION Spec\nCONSTANTS\n  MemoLen = 512\n  Fams = {%s}\n  MaxLen = %d\n  IdxN = %d\n"
                "  PctLen = %d\n  Emit = %s\n" % (", ".join('"%s"' % x for x in fams), maxlen, idxn, pctlen,
                                                 "TRUE" if emit else "FALSE"))
        if invariant:
            f.write("INVARIANT Theorems\n")
        f.write("CHECK_DEADLOCK FALSE\n")


def counts_of(r, fams):
    c = r.prints("COUNTS")
    if not c:
        raise lib.ToolError("MC_Zip321 did not print its case counts")
    c = c[0]
    if sorted(c.keys()) != sorted(fams) or any(v == 0 for v in c.values()):
        raise lib.ToolError("vacuity: a case family of MC_Zip321 is empty or missing: %s" % c)
    if r.distinct != sum(c.values()) + len(c):
        raise lib.ToolError("vacuity: MC_Zip321 explored %d states, its families have %d cases"
                            % (r.distinct, sum(c.values())))
    return c


def model_check(ctx, d, bounds, tag, fams):
    """(1) theorems on every case of every family."""
    cfg = "MC_run_%s.cfg" % tag
    write_mc_cfg(os.path.join(d, cfg), fams, bounds[0], bounds[1], bounds[2], False, True)
    # coverage statistics triple the run time; the vacuity guard is the exact state count (one state per case)
    r = lib.tlc(ctx, d, "MC_Zip321", cfg, workers=8, timeout=2400, xss="64m", coverage=False)
    c = counts_of(r, fams)
    lib.account_tlc(ctx, r)
    return c


def emit_cases(ctx, d, fams, bounds, tag):
    """(2a) the URI cases with verdict and denoted payments, printed by TLC."""
    cfg = "Emit_%s.cfg" % tag
    write_mc_cfg(os.path.join(d, cfg), fams, bounds[0], bounds[1], bounds[2], True, False)
    r = lib.tlc(ctx, d, "MC_Zip321", cfg, workers=1, timeout=2400, coverage=False, xss="64m")
    c = counts_of(r, fams)
    path = ctx.path("cases_%s.ndjson" % tag)
    n = 0
    verdicts, whys = {}, {}
    samples = {}
    pre = '<<"CASE", '
    with open(path, "w") as f:
        for line in r.out.splitlines():
            if line.startswith(pre) and line.endswith(">>"):
                s = json.loads(line[len(pre):-2])
                f.write(s + "\n")
                n += 1
                m = re.search(r'"v":"(\w+)"', s)
                w = re.search(r'"why":"([\w-]*)"', s)
                verdicts[m.group(1)] = verdicts.get(m.group(1), 0) + 1
                whys[w.group(1)] = whys.get(w.group(1), 0) + 1
                if w.group(1) not in samples and len(s) < 1200:
                    samples[w.group(1)] = s
    r.out = ""   # large
    if n != sum(c.values()):
        raise lib.ToolError("TLC printed %d cases, the families have %d" % (n, sum(c.values())))
    lib.account_tlc(ctx, r)
    return path, n, verdicts, whys, samples


def uri_text(u, fill=lambda kd, slot: "<%s>" % kd):
    """Readable text of a layer-1 record (addresses shown as <kind>)."""
    b = bytes(u["st"]).decode("utf-8", "replace")
    if u["lead"]["t"] == "addr":
        b += fill(u["lead"]["kd"], u["lead"]["a"])
    for j, p in enumerate(u["ps"]):
        b += "?" if j == 0 else "&"
        b += bytes(p["nm"]).decode("utf-8", "replace")
        if p["dot"]:
            b += "." + bytes(p["ix"]).decode("utf-8", "replace")
        if p["eq"]:
            b += "=" + (fill(p["kd"], p["a"]) if p["kd"] else bytes(p["raw"]).decode("utf-8", "replace"))
    return b


def run_replay(ctx, replay_bin, cases_path, extra_path, nets, seed):
    p = lib.run_bin(replay_bin, [cases_path, extra_path] + list(nets), env_extra={"VERIF_SEED": str(seed)}, timeout=1800)
    return json.loads(p.stdout.strip().splitlines()[-1])


def report_mismatches(ctx, res, seed):
    for m in res["mismatches"][:MAX_REPORTED]:
        c = m["case"]
        lib.violation(ctx, {"property": "C12", "kind": "case", "case": c, "net": m["net"], "seed": seed,
                            "uri": m["uri"], "observed": m["observed"]},
                      "TransactionRequest::from_uri(%r): %s — the specification says %s%s; the code returned %s"
                      % (m["uri"][:400], m["problem"], c["v"], (" (%s)" % c["why"]) if c["why"] else "",
                         json.dumps(m["observed"])[:600]))


def strip_for_tlc(rec):
    r = dict(rec)
    r.pop("in", None)
    r.pop("uri", None)
    return r


def read_ndjson(path):
    with open(path) as f:
        return [json.loads(l) for l in f if l.strip()]


def write_trace(path, recs):
    with open(path, "w") as f:
        for e in recs:
            f.write(json.dumps(strip_for_tlc(e)) + "\n")
        f.write(json.dumps({"ev": "end", "n": len(recs)}) + "\n")


def validate(ctx, d, path):
    ok, n, detail, r = lib.tlc_validate(ctx, d, "Trace_Zip321", "Trace_Zip321.cfg", path, timeout=2400)
    lib.account_tlc(ctx, r)
    st = r.prints("STATS")
    if ok and st:
        ctx.extra["driver_uri_verdicts"] = st[0]
    return ok, n, detail


def describe(e, detail):
    exp = ""
    m = re.search(r'"expected", (".*")$', detail or "")
    if m:
        try:
            exp = json.dumps(json.loads(json.loads(m.group(1))))[:900]
        except ValueError:
            exp = ""
    if e["ev"] == "uri":
        return "from_uri(%r) -> %s, payments %s, re-render/parse %s; specification: %s" % (
            e["in"]["uri"][:400], e["res"], json.dumps(e["pays"])[:500], e["back"], exp)
    if e["ev"] == "rt":
        return "request %s: constructor %s, to_uri %s = %r, parsed back %s, total %s; specification: %s" % (
            json.dumps(e["in"])[:500], e["new"], e["ures"], e.get("uri", "")[:400], e["back"], json.dumps(e["tot"]), exp)
    if e["ev"] == "memo":
        return "memo bytes %s: MemoBytes::from_bytes %s, as_slice %s, Memo::from_bytes %s, base64 %r/%s; specification: %s" % (
            e["in"]["hex"][:80], e["mb"], bytes(e["sl"]).hex()[:80], e["kind"], bytes(e["b64"]).decode("latin1")[:60],
            e["b64back"], exp)
    if e["ev"] == "any":
        return "from_uri on a generated string %s (%d bytes) -> %s; specification: %s" % (json.dumps(e["in"]), e["len"], e["res"], exp)
    return "%s %s -> %s; specification: %s" % (e["ev"], json.dumps(e["in"]), e.get("res"), exp)


def judge(ctx, d, recs, tag, seed):
    """Validates the records; every rejected record is a violation (the first MAX_REPORTED are reported, each with
    its own replay file). Returns the number of records accepted."""
    recs = list(recs)
    reported = 0
    while True:
        path = ctx.path("trace_%s_%d.ndjson" % (tag, reported))
        write_trace(path, recs)
        ok, n, detail = validate(ctx, d, path)
        if ok:
            return len(recs)
        if n < 1 or n > len(recs):
            raise lib.ToolError("trace rejected at its end marker (%s)" % detail[:300])
        bad = recs[n - 1]
        if "malformed request description" in detail:
            raise lib.ToolError("the driver produced an ill-formed request description at record %d" % n)
        lib.violation(ctx, {"property": "C12", "kind": "trace", "ev": bad["ev"], "in": bad["in"], "seed": seed,
                            "observed": {k: v for k, v in strip_for_tlc(bad).items() if k not in ("u", "req")}},
                      "the real code disagrees with spec/Address/Zip321.tla: " + describe(bad, detail))
        reported += 1
        del recs[n - 1]
        if reported >= MAX_REPORTED:
            return len(recs)


def drive(ctx, driver, out, sizes, seed, big=False):
    args = ["gen", out] + [str(x) for x in sizes] + (["big"] if big else [])
    p = lib.run_bin(driver, args, env_extra={"VERIF_SEED": str(seed)}, timeout=1200)
    return json.loads(p.stdout.strip().splitlines()[-1])


def run(ctx):
    replay_bin, driver = build()
    d = stage(ctx)
    quick = ctx.quick()
    # (1) + (2a)
    runs = [("a", (3, 2, 2), URI_FAMS)] if quick else [("a", (3, 3, 2), URI_FAMS), ("b", (4, 2, 1), ["shape"])]
    counts = model_check(ctx, d, runs[0][1], "a", URI_FAMS + TH_FAMS)
    for tag, bounds, fams in runs[1:]:
        counts["shape (items <= %d)" % bounds[0]] = model_check(ctx, d, bounds, tag, fams)["shape"]
    ctx.extra["theorem_cases"] = {k: v for k, v in counts.items()}
    total_cases = executed = 0
    verdicts, whys, distinct_uris = {}, {}, 0
    extra_recs = []
    for tag, bounds, fams in runs:
        cases_path, n, v, w, samples = emit_cases(ctx, d, fams, bounds, tag)
        total_cases += n
        for k, x in v.items():
            verdicts[k] = verdicts.get(k, 0) + x
        for k, x in w.items():
            whys[k] = whys.get(k, 0) + x
        if tag == "a":
            missing = [x for x in REQUIRED_WHY if w.get(x, 0) == 0] + [x for x in ("valid", "invalid", "unspec") if v.get(x, 0) == 0]
            if missing:
                raise lib.ToolError("vacuity: no enumerated case for %s" % missing)
            for key in ("", "duplicate", "zero-transparent", "amount", "index"):
                if key in samples:
                    c = json.loads(samples[key])
                    ctx.add_sample({"uri": uri_text(c["u"]), "verdict": c["v"], "rule": c["why"],
                                    "payments": len(c["pays"])})
        # (2b) replay on the real parser
        extra_path = ctx.path("unspec_accepted_%s.ndjson" % tag)
        res = run_replay(ctx, replay_bin, cases_path, extra_path, NETS, ctx.seed)
        if res["cases"] != n or res["executed"] != n * len(NETS):
            raise lib.ToolError("replay executed %d of %d x %d cases" % (res["executed"], n, len(NETS)))
        report_mismatches(ctx, res, ctx.seed)
        if res["n_mismatch"] > len(res["mismatches"][:MAX_REPORTED]):
            lib.log("note: %d replayed cases disagree in total" % res["n_mismatch"])
        executed += res["executed"]
        distinct_uris = max(distinct_uris, res["distinct_uris"])   # the runs overlap: count the larger one only
        extra_recs += read_ndjson(extra_path)
        if tag == "a" and not ctx.violations and (res["accepted"] == 0 or res["rejected"] == 0):
            raise lib.ToolError("vacuity: the parser %s every replayed URI" % ("rejected" if res["accepted"] == 0 else "accepted"))
        if not quick:
            os.remove(cases_path)
    # (3) driver + trace validation
    sizes = (600, 1500, 2000, 250) if quick else (4000, 8000, 10000, 1500)
    raw = ctx.path("driver.ndjson")
    summary = drive(ctx, driver, raw, sizes, ctx.seed, big=not quick)
    recs = read_ndjson(raw)
    if not recs or recs[-1]["ev"] != "end" or recs[-1]["n"] != len(recs) - 1 or summary["records"] != len(recs) - 1:
        raise lib.ToolError("driver trace is incomplete")
    recs = recs[:-1]
    per = summary["per_event"]
    if any(per.get(k, 0) == 0 for k in ("uri", "rt", "pnew", "tnew", "fidx", "memo", "any")) \
            or per["rt"] != sizes[0] or len(summary["uri_outcomes"]) < 2:
        raise lib.ToolError("vacuity: the driver did not produce every kind of observation: %s" % summary)
    accepted = judge(ctx, d, extra_recs + recs, "run", ctx.seed)
    st = ctx.extra.get("driver_uri_verdicts")
    if not ctx.violations and (not st or min(st["valid"], st["invalid"], st["unspec_accepted"], st["unspec_refused"]) == 0):
        raise lib.ToolError("vacuity: the strings given to from_uri do not cover every verdict: %s" % st)
    ctx.traces = executed + accepted
    if not ctx.violations:
        pays = sum(len(e["req"]) for e in recs if e["ev"] == "rt")
        ctx.extra["round_trip_requests"] = per["rt"]
        ctx.extra["round_trip_payments"] = pays
    for e in recs:
        if e["ev"] == "rt" and len(e["req"]) <= 2 and len(e.get("uri", "")) < 300:
            ctx.add_sample({"request": e["in"], "to_uri": e["uri"], "parsed_back": e["back"]}, cap=7)
            break
    ctx.extra["replayed_cases"] = total_cases
    ctx.extra["replayed_executions"] = executed
    ctx.extra["verdicts"] = verdicts
    ctx.extra["refusal_rules_exercised"] = {k: v for k, v in sorted(whys.items()) if k}
    ctx.extra["unspecified_inputs_accepted_and_judged_by_rules"] = len(extra_recs)
    ctx.extra["driver"] = summary
    distinct_v = len({json.dumps(e["in"], sort_keys=True) for e in recs})
    lib.mc_evidence(
        ctx,
        rule="R: every layer-1 URI enumerated by TLC from MC_Zip321 (item lists up to length %d over address/amount/"
             "memo/label/message/other/req- items x index texts, every index text, amount text, memo form, "
             "percent-token pair, recipient kind and scheme/empty-item/no-'=' shape) is executed on "
             "TransactionRequest::from_uri on 3 networks and compared with Verdict/Denote; V: every driver record "
             "(constructed requests rendered and parsed back, token-generated and mutated URIs, memo conversions, "
             "constructor calls) is validated by TLC against Trace_Zip321. distinct_nontrivial = distinct concrete URI "
             "strings replayed (of the largest enumeration run) + distinct driver inputs; states/transitions also count "
             "the theorem cases of MC_Zip321"
             % runs[-1][1][0],
        evaluations=executed + len(recs) + len(extra_recs), distinct_nontrivial=distinct_uris + distinct_v,
        extra={"exhaustive": False, "bounds": {"shape_max_items": [r[1][0] for r in runs],
                                               "shape_index_texts": [r[1][1] for r in runs],
                                               "pct_token_seq": runs[0][1][2]}},
        assumptions=[
            "a recipient's kind (can receive a memo / transparent-only) is what the harness chose when it built the "
            "address string from raw bytes with zcash_address' constructors; address strings the harness did not build "
            "are of unknown kind and make the verdict 'unspecified'",
            "'unspecified' inputs (empty request `zcash:`, empty items, items without '=', malformed or non-UTF-8 "
            "%-escapes, base64url with non-zero trailing bits, names equal to a reserved name up to case, scheme in "
            "another case) may be accepted or refused; when accepted the returned payments must satisfy the rules and "
            "survive to_uri/from_uri",
            "error values are compared by class (accepted / refused) only",
            "TransactionRequest::total: when a payment lacks an amount and the present amounts exceed MAX_MONEY both "
            "Ok(None) and Err are allowed (the rustdoc promises both)",
            "other parameters of a payment are compared as a set of (name, value) pairs",
        ])


def replay(ctx, path):
    replay_bin, driver = build()
    d = stage(ctx)
    with open(path) as f:
        rep = json.load(f)
    seed = rep.get("seed", 1)
    if rep["kind"] == "case":
        cp = ctx.path("replay_case.ndjson")
        with open(cp, "w") as f:
            f.write(json.dumps(rep["case"]) + "\n")
        extra = ctx.path("replay_extra.ndjson")
        res = run_replay(ctx, replay_bin, cp, extra, [rep["net"]], seed)
        report_mismatches(ctx, res, seed)
        ex = read_ndjson(extra)
        if ex:
            judge(ctx, d, ex, "replay", seed)
    elif rep["kind"] == "trace":
        src = ctx.path("replay_in.ndjson")
        with open(src, "w") as f:
            f.write(json.dumps({"ev": rep["ev"], "in": rep["in"]}) + "\n")
        out = ctx.path("replay_out.ndjson")
        lib.run_bin(driver, ["eval", src, out], env_extra={"VERIF_SEED": str(seed)}, timeout=300)
        recs = read_ndjson(out)[:-1]
        if len(recs) != 1:
            raise lib.ToolError("replay: the recorded input was not re-evaluated")
        judge(ctx, d, recs, "replay", seed)
    else:
        raise lib.ToolError("unknown replay kind %r" % rep.get("kind"))
    if not ctx.violations:
        lib.log("replay: the recorded input now agrees with the specification")


def selftest(ctx):
    """Binding demonstration.  V: a fresh trace is accepted; one corrupted field is rejected at its index (amount
    digit, payment dropped, verdict flipped both ways, panic, memo kind / slice / base64, constructor outcome, total);
    a dropped record and a cut trace are rejected.  R: a perturbed expectation (verdict flipped both ways, one amount
    digit of the denoted payments) is reported by the replay harness."""
    replay_bin, driver = build()
    d = stage(ctx)
    raw = ctx.path("self.ndjson")
    drive(ctx, driver, raw, (60, 150, 150, 30), ctx.seed)
    recs = read_ndjson(raw)[:-1]
    good = ctx.path("self_good.ndjson")
    write_trace(good, recs)
    ok, n, detail = validate(ctx, d, good)
    if not ok:
        raise lib.ToolError("selftest: the uncorrupted trace is rejected at %d: %s" % (n, detail[:300]))

    def first(pred):
        for i, e in enumerate(recs):
            if pred(e):
                return i
        raise lib.ToolError("selftest: no record to corrupt")

    def clone(e):
        return json.loads(json.dumps(e))

    def bump_req_amount(e):
        e = clone(e)
        p = next(p for p in e["req"] if p["hz"])
        p["z"][-1] = (p["z"][-1] + 1) % 10
        return e

    def bump_uri_amount_text(e):
        e = clone(e)
        p = next(p for p in e["u"]["ps"] if bytes(p["nm"]) == b"amount")
        p["raw"][-1] = 48 + (p["raw"][-1] - 48 + 1) % 10
        return e

    def drop_payment(e):
        e = clone(e)
        e["pays"] = e["pays"][1:]
        return e

    def set_(k, v):
        def f(e):
            e = clone(e)
            e[k] = v
            return e
        return f

    def has_amount_item(e):
        return any(bytes(p["nm"]) == b"amount" and p["eq"] and p["raw"] for p in e["u"]["ps"])

    rendered = {e["uri"] for e in recs if e["ev"] == "rt"}
    is_ok_uri = lambda e: e["ev"] == "uri" and e["res"] == "ok"
    is_rendered = lambda e: is_ok_uri(e) and e["in"]["uri"] in rendered          # verdict "valid" for sure
    has_req = lambda e: e["ev"] == "uri" and e["res"] == "err" and e["u"]["sch"] == "ok" and \
        any(bytes(p["nm"]) == b"req-x" for p in e["u"]["ps"])                    # verdict "invalid" for sure
    corruptions = [
        ("rt: one amount digit of the request", first(lambda e: e["ev"] == "rt" and any(p["hz"] for p in e["req"])), bump_req_amount),
        ("rt: one digit of the rendered amount text", first(lambda e: e["ev"] == "rt" and has_amount_item(e)), bump_uri_amount_text),
        ("rt: parsed back differs", first(lambda e: e["ev"] == "rt"), set_("back", "neq")),
        ("rt: constructor refused", first(lambda e: e["ev"] == "rt"), set_("new", "err")),
        ("rt: to_uri panicked", first(lambda e: e["ev"] == "rt"), set_("ures", "panic")),
        ("rt: total", first(lambda e: e["ev"] == "rt" and e["tot"]["t"] == "val"),
         lambda e: dict(clone(e), tot={"t": "val", "v": [(e["tot"]["v"][0] % 9) + 1] + e["tot"]["v"][1:]})),
        ("uri: accepted -> refused", first(is_rendered), set_("res", "err")),
        ("uri: refused -> accepted", first(has_req), lambda e: dict(clone(e), res="ok", back="eq")),
        ("uri: a payment dropped", first(lambda e: is_rendered(e) and len(e["pays"]) >= 2), drop_payment),
        ("uri: panic", first(lambda e: e["ev"] == "uri"), set_("res", "panic")),
        ("uri: re-rendering does not parse back", first(is_ok_uri), set_("back", "neq")),
        ("pnew: outcome flipped", first(lambda e: e["ev"] == "pnew" and e["res"] == "err"), set_("res", "ok")),
        ("tnew: outcome flipped", first(lambda e: e["ev"] == "tnew" and e["res"] == "err"), set_("res", "ok")),
        ("fidx: outcome flipped", first(lambda e: e["ev"] == "fidx" and e["res"] == "err"), set_("res", "ok")),
        ("memo: kind", first(lambda e: e["ev"] == "memo" and e["kind"] == "text"), set_("kind", "future")),
        ("memo: slice keeps a zero", first(lambda e: e["ev"] == "memo" and e["mb"] == "ok"), lambda e: dict(clone(e), sl=e["sl"] + [0])),
        ("memo: too long accepted", first(lambda e: e["ev"] == "memo" and e["mb"] == "err"), set_("mb", "ok")),
        ("memo: base64 text", first(lambda e: e["ev"] == "memo" and len(e["b64"]) > 2),
         lambda e: dict(clone(e), b64=[(66 if e["b64"][0] == 65 else 65)] + e["b64"][1:])),
        ("memo: encode loses a byte", first(lambda e: e["ev"] == "memo" and e["kind"] in ("text", "future", "arbitrary") and len(e["enc"]) > 1),
         lambda e: dict(clone(e), enc=e["enc"][:-1])),
    ]
    for name, i, f in corruptions:
        mutated = list(recs)
        mutated[i] = f(recs[i])
        p = ctx.path("self_bad.ndjson")
        write_trace(p, mutated)
        ok, n, detail = validate(ctx, d, p)
        if ok or n != i + 1:
            raise lib.ToolError("selftest: corruption '%s' of record %d not rejected there (verdict %s at %s)"
                                % (name, i + 1, ok, n))
        lib.log("selftest: corruption '%s' rejected at record %d" % (name, n))
    p = ctx.path("self_dropped.ndjson")
    write_trace(p, recs)
    lines = open(p).read().splitlines()
    k = len(lines) // 2
    with open(p, "w") as f:
        f.write("\n".join(lines[:k] + lines[k + 1:]) + "\n")
    ok, n, detail = validate(ctx, d, p)
    if ok or n != len(lines) - 1:
        raise lib.ToolError("selftest: dropped record not noticed at the end marker (verdict %s at %s)" % (ok, n))
    with open(p, "w") as f:
        f.write("\n".join(lines[:k]) + "\n")
    ok, n, detail = validate(ctx, d, p)
    if ok:
        raise lib.ToolError("selftest: cut trace accepted")
    # R: perturbed expectations
    cases_path, n, v, w, samples = emit_cases(ctx, d, ["amount", "struct", "addr"], (2, 2, 1), "self")
    cases = read_ndjson(cases_path)
    res = run_replay(ctx, replay_bin, cases_path, ctx.path("self_extra.ndjson"), NETS, ctx.seed)
    if res["n_mismatch"]:
        raise lib.ToolError("selftest: unperturbed cases disagree")
    valid = next(c for c in cases if c["v"] == "valid" and any(p["hz"] for p in c["pays"]))
    invalid = next(c for c in cases if c["v"] == "invalid" and c["why"] == "zero-transparent")
    p1 = clone(valid)
    p1["v"], p1["why"], p1["pays"] = "invalid", "amount", []
    p2 = clone(invalid)
    p2["v"], p2["why"] = "valid", ""
    p3 = clone(valid)
    q = next(p for p in p3["pays"] if p["hz"])
    q["z"][-1] = (q["z"][-1] + 1) % 10
    for name, c in (("valid -> invalid", p1), ("invalid -> valid", p2), ("one digit of a denoted amount", p3)):
        pp = ctx.path("self_perturbed.ndjson")
        with open(pp, "w") as f:
            f.write(json.dumps(c) + "\n")
        res = run_replay(ctx, replay_bin, pp, ctx.path("self_extra.ndjson"), NETS, ctx.seed)
        if res["n_mismatch"] != len(NETS) or len(res["mismatches"]) != 1:
            raise lib.ToolError("selftest: perturbed expectation '%s' was not reported" % name)
        lib.log("selftest: perturbed expectation '%s' reported by the replay harness" % name)
    lib.log("selftest ok: %d records accepted, %d corruptions each rejected at their index, dropped/cut trace rejected, "
            "3 perturbed replay expectations reported" % (len(recs), len(corruptions)))
