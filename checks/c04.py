"""C04 - transaction ids and signature hashes commit to exactly the data they must.

1. TLC checks spec/Codec/DigestTree.tla (ZIP 244 txid / authorising-data commitment / signature digest,
   the documented v6 variant, ZIP 143 / 243 for v3 / v4, SHA-256d of the serialisation for v1-v4, all as
   TREES of H(personalisation, children) over field classes) on every shape with small counts: the
   field instances under each digest (H uninterpreted and injective; term lemma on the free algebra)
   equal the property's rule (effecting / authorising roles + the documented hash-type exclusions),
   and the property's theorems hold.  It prints the trees, the field table, the sensitivity table, the
   hash type / parse / index tables and, per shape, the concrete leaf set of every digest.
2. R: harness/h_tx/src/bin/c04_replay.rs materialises every shape under the branches of its version
   (plus seeded larger shapes) as real transactions (txgen), evaluates the emitted trees with a generic
   interpreter (blake2b_simd / sha2 over the accessors' field bytes) and requires equality with
   Transaction::txid(), auth_commitment() and signature_hash() for the shielded case and every
   (transparent input, hash type); then changes every field instance alone (public from_parts
   constructors) and compares changed / unchanged of every digest with the sensitivity table and with
   TLC's leaf sets.  SighashType::parse over all 256 bytes, SignableInput::from_parts index cases.
"""
import json
import os
import random
import subprocess

from . import lib

AREA = "Codec"
INVS = "WF ThmTreeEqualsRule ThmEffecting ThmAuthorising ThmTransparent Lemma"
BRANCHES = {"sprout1": ["Sprout"], "sprout2": ["Sprout"], "v3": ["Overwinter"],
            "v4": ["Sapling", "Blossom", "Heartwood", "Canopy", "Nu5", "Nu6", "Nu6_1", "Nu6_2", "Nu6_3"],
            "v5": ["Nu5", "Nu6", "Nu6_1", "Nu6_2", "Nu6_3"], "v6": ["Nu6_3"]}
MAX_REPORTED = 3
PROCS = 8


# ------------------------------------------------------------------------------------------------
# TLC

def write_cfg(d, name, max_io, sh_counts, term_counts, emit):
    cfg = "MC_DigestTree_%s.cfg" % name
    with open(os.path.join(d, cfg), "w") as f:
        f.write("SPECIFICATION Spec\nCONSTANTS\n  MaxIO = %d\n  ShCounts = {%s}\n  TermCounts = {%s}\n  Emit = %s\n"
                "INVARIANTS %s\nCHECK_DEADLOCK FALSE\n"
                % (max_io, ", ".join(map(str, sh_counts)), ", ".join(map(str, term_counts)), "TRUE" if emit else "FALSE", INVS))
    return cfg


def run_tlc(ctx, d, name="run", max_io=2, sh_counts=(0, 1), term_counts=(0, 1), emit=True, expect_ok=True, timeout=1500):
    cfg = write_cfg(d, name, max_io, sh_counts, term_counts, emit)
    return lib.tlc(ctx, d, "MC_DigestTree", cfg, workers=8, timeout=timeout, coverage=True, expect_ok=expect_ok)


def spec_from(r):
    trees = r.prints("TREE")
    fields = r.prints("FIELDS")
    consts = r.prints("CONSTS")
    table = r.prints("TABLE")
    cases = r.prints("CASE")
    if len(trees) != 6 or len(fields) != 1 or len(consts) != 1 or len(table) != 1 or not cases:
        raise lib.ToolError("TLC emitted %d trees, %d field tables, %d const tables, %d sensitivity tables, %d cases"
                            % (len(trees), len(fields), len(consts), len(table), len(cases)))
    spec = {"trees": {t["ver"]: t for t in trees}, "fields": fields[0], "consts": consts[0], "table": table[0]}
    # the table must be a function of its key
    seen = {}
    for row in spec["table"]:
        k = row_key(row)
        if seen.setdefault(k, row["out"]) != row["out"]:
            raise lib.ToolError("the sensitivity table is not a function at %s" % k)
    return spec, cases


def row_key(r):
    ac = r["ac"]
    return "%s|%s|%s|%s|%s|%s|%s|%s|%s" % (r["ver"], r["dig"], ac["kind"], ac["base"], str(ac["acp"]).lower(), ac["tclass"],
                                             str(ac["jout"]).lower(), r["f"], r["rel"])


# ------------------------------------------------------------------------------------------------
# cases

def tlc_cases(tcases, quick, seed):
    """Every shape TLC enumerated, under the branches of its version (quick: a seeded rotation of three)."""
    out = []
    rnd = random.Random(seed * 7919 + 4)
    for k, c in enumerate(sorted(tcases, key=lambda c: json.dumps(c["shape"], sort_keys=True))):
        brs = BRANCHES[c["shape"]["ver"]]
        if quick and len(brs) > 3:
            o = rnd.randrange(len(brs))
            brs = sorted({brs[(o + 3 * i) % len(brs)] for i in range(3)})
        for b in brs:
            sh = dict(c["shape"], branch=b)
            out.append({"id": len(out), "shape": sh, "sample": 0,
                        "pred": {"txid": c["txid"], "auth": c["auth"], "sigs": c["sigs"]}})
    return out


def extra_cases(seed, quick, first_id):
    """Seeded larger shapes (more inputs than outputs and vice versa, several elements per bundle, script lengths at
    the CompactSize class edges, pre-Overwinter versions >= 3); compared with the table only."""
    rnd = random.Random(seed * 1000003 + 4)
    out = []

    def add(ver, br, **kw):
        sh = {"ver": ver, "branch": br, "nIn": 0, "nOut": 0, "cb": False, "nJS": 0, "nSp": 0, "nSO": 0, "nAct": 0, "nIrw": 0}
        sh.update(kw)
        out.append({"id": first_id + len(out), "shape": sh, "sample": 0})

    lens_in = [0, 1, 2, 33, 107, 252, 253, 254, 300]
    lens_out = [0, 1, 23, 25, 35, 252, 253, 400]
    for ver in ("sprout3", "sprout2147483647"):
        add(ver, "Sprout", nIn=2, nOut=1, nJS=2)
    add("v5", "Nu5", nIn=3, nOut=1, sigLens=[252, 253, 0], pkLens=[253])
    add("v6", "Nu6_3", nIn=1, nOut=3, sigLens=[65536], pkLens=[0, 252, 65535], nIrw=1)
    add("v4", "Canopy", nIn=2, nOut=2, sigLens=[253, 1], pkLens=[1, 253], nJS=2, nSp=2, nSO=2)
    add("v5", "Nu6_2", nIn=4, nOut=4, nSp=3, nSO=3, nAct=3)
    add("v6", "Nu6_3", nIn=3, nOut=2, nSp=2, nSO=3, nAct=2, nIrw=3)
    add("v3", "Overwinter", nIn=3, nOut=2, nJS=3)
    # many elements per vector (a digest that stops after k elements)
    add("v5", "Nu6_1", nIn=12, nOut=9, nSp=6, nSO=6, nAct=6)
    add("v6", "Nu6_3", nIn=9, nOut=12, nSp=5, nSO=7, nAct=5, nIrw=6)
    add("v4", "Heartwood", nIn=10, nOut=10, nJS=3, nSp=6, nSO=6)
    for _ in range(40 if quick else 600):
        ver = rnd.choice(["sprout1", "sprout2", "v3", "v4", "v4", "v5", "v5", "v5", "v6", "v6", "v6"])
        br = rnd.choice(BRANCHES[ver])
        c = lambda ok, top=4: rnd.randint(0, top) if ok else 0
        n_in, n_out = c(True, 5), c(True, 5)
        add(ver, br, nIn=n_in, nOut=n_out, nJS=c(ver in ("sprout2", "v3", "v4"), 2), nSp=c(ver in ("v4", "v5", "v6")),
            nSO=c(ver in ("v4", "v5", "v6")), nAct=c(ver in ("v5", "v6"), 3), nIrw=c(ver == "v6", 3),
            cb=(n_in == 1 and rnd.random() < 0.3),
            sigLens=[rnd.choice(lens_in) for _ in range(n_in)], pkLens=[rnd.choice(lens_out) for _ in range(n_out)])
    return out


# ------------------------------------------------------------------------------------------------
# harness

def run_harness(ctx, binpath, spec, cases, seed, eq_on_mutants, name, tables=True):
    """Runs the cases in PROCS concurrent processes; returns the merged summary."""
    chunks = [cases[i::PROCS] for i in range(PROCS)] if len(cases) >= 2 * PROCS else [cases]
    procs = []
    for k, ch in enumerate(chunks):
        path = ctx.path("%s_in_%d.json" % (name, k))
        with open(path, "w") as f:
            json.dump({"spec": spec, "cases": ch, "seed": seed, "opts": {"eq_on_mutants": eq_on_mutants, "tables": tables and k == 0,
                                "equality": not os.environ.get("VERIF_C04_NOEQ")}}, f)
        env = dict(os.environ)
        env["VERIF_SEED"] = str(seed)
        procs.append((path, subprocess.Popen([binpath, path], stdout=subprocess.PIPE, stderr=subprocess.PIPE, text=True, env=env)))
    total = None
    for path, p in procs:
        try:
            out, err = p.communicate(timeout=2400)
        except subprocess.TimeoutExpired:
            p.kill()
            raise lib.ToolError("c04_replay timed out")
        if p.returncode != 0:
            lib.log(err[-3000:])
            raise lib.ToolError("c04_replay exited with %d" % p.returncode)
        res = json.loads(out.strip().splitlines()[-1])
        if total is None:
            total = res
            total["rows"] = set(res["rows"])
            total["versions"] = set(res["versions"])
        else:
            for k, v in res.items():
                if k in ("rows", "versions"):
                    total[k] |= set(v)
                elif k in ("mismatches", "harness_errors"):
                    total[k] += v
                elif k in ("max_tx_len", "table_rows"):
                    total[k] = max(total[k], v)
                elif isinstance(v, int):
                    total[k] += v
    if total["harness_errors"]:
        raise lib.ToolError("c04_replay could not decide: %s" % "; ".join(total["harness_errors"][:3])[:1500])
    return total


def judge(ctx, res, spec, cases, seed, eq_on_mutants):
    by_id = {c["id"]: c for c in cases}
    reported = set()
    size = lambda m: sum(v for v in m.get("ctx", {}).get("shape", {}).values() if isinstance(v, int) and not isinstance(v, bool))
    # smallest shapes first: the reported counterexample is a minimal one among those found
    for m in sorted(res["mismatches"], key=size):
        kind = m["kind"]
        key = (kind, m.get("digest") or m.get("row") or m.get("byte") or m.get("index"))
        if key in reported or len(reported) >= MAX_REPORTED:
            continue
        reported.add(key)
        if kind in ("parse", "index"):
            lib.violation(ctx, {"property": "C04", "kind": "tables", "seed": seed, "spec": spec},
                          "zcash_transparent::sighash disagrees with spec/Codec/DigestTree.tla: %s" % m["what"])
            continue
        case = dict(by_id[m["ctx"]["case"]])
        if "only" in m:
            case["only"] = m["only"]
        v = case["shape"]["ver"]
        v = v if not v.startswith("sprout") else ("sprout1" if v == "sprout1" else "sprout2")
        small = dict(spec, table=[row for row in spec["table"] if row["ver"] == v], trees={v: spec["trees"][v]})
        lib.violation(ctx, {"property": "C04", "kind": kind, "seed": seed, "spec": small, "case": case,
                            "eq_on_mutants": eq_on_mutants, "detail": m},
                      "%s (shape %s)" % (m["what"], json.dumps(m["ctx"]["shape"], sort_keys=True)))


def run(ctx):
    bindir = lib.cargo_build("h_tx", ["c04_replay"])
    binpath = os.path.join(bindir, "c04_replay")
    d = lib.stage_specs(ctx, AREA)
    for m in ("DigestTree", "MC_DigestTree"):
        lib.sany(os.path.join(d, m + ".tla"))
    quick = ctx.quick()

    # (1) the model: theorems + emission
    r = run_tlc(ctx, d, max_io=2, sh_counts=(0, 1), term_counts=(0, 1))
    lib.require_coverage(r, ["Eval"])
    lib.account_tlc(ctx, r)
    spec, tcases = spec_from(r)
    if 2 * len(tcases) != r.distinct:
        raise lib.ToolError("TLC printed %d cases for %d states" % (len(tcases), r.distinct))
    if not quick:
        # the theorems (not the emission) on a wider domain: two elements per shielded vector, three inputs / outputs
        r2 = run_tlc(ctx, d, name="wide", max_io=3, sh_counts=(0, 2), term_counts=(0,), emit=False, timeout=2400)
        lib.account_tlc(ctx, r2)

    # (2) replay
    cases = tlc_cases(tcases, quick, ctx.seed)
    n_tlc = len(cases)
    if not quick:
        # further samples of every enumerated shape
        for sample in (1, 2):
            cases += [dict(c, id=len(cases) + k, sample=sample) for k, c in enumerate(cases[:n_tlc])]
        n_tlc = len(cases)
    cases += extra_cases(ctx.seed, quick, len(cases))
    res = run_harness(ctx, binpath, spec, cases, ctx.seed, True, "run")
    lib.log("[replay] %d transactions (%d from TLC shapes x branches, %d seeded larger shapes): %d txid / %d auth / %d sighash equalities, "
            "%d one-field mutants, %d changed/unchanged comparisons, %d of %d table rows exercised, %d mismatches"
            % (res["txs"], n_tlc, len(cases) - n_tlc, res["eq_txid"], res["eq_auth"], res["eq_sig"], res["mutants"],
               res["comparisons"], len(res["rows"]), res["table_rows"], res["mismatch_count"]))
    judge(ctx, res, spec, cases, ctx.seed, True)

    if not ctx.violations:
        if res["txs"] != len(cases):
            raise lib.ToolError("replay ran %d of %d cases" % (res["txs"], len(cases)))
        for k in ("eq_txid", "eq_auth", "eq_sig", "eq_read", "mutants", "changed", "unchanged", "pred_checks", "param_checks"):
            if res.get(k, 0) == 0:
                raise lib.ToolError("vacuity: no %s were exercised" % k)
        if res["parse_bytes"] != 256 or res["index_cases"] == 0:
            raise lib.ToolError("vacuity: the parse / index tables were not run")
        missing = sorted({row_key(row) for row in spec["table"]} - res["rows"])
        if missing:
            raise lib.ToolError("vacuity: %d rows of the sensitivity table were never exercised, e.g. %s" % (len(missing), missing[:4]))
        want = {"%s/%s" % (v, b) for v, bs in BRANCHES.items() for b in bs}
        if not want <= res["versions"]:
            raise lib.ToolError("vacuity: version/branch pairs not exercised: %s" % sorted(want - res["versions"]))
        if res["mutants_skipped"] * 50 > res["mutants"]:
            raise lib.ToolError("%d of %d mutations found no different value" % (res["mutants_skipped"], res["mutants"]))

    some = tcases[len(tcases) // 2]
    ctx.add_sample({"shape": some["shape"], "txid_leaves": some["txid"][:6], "n_signature_cases": len(some["sigs"])})
    ctx.add_sample({"table_row": spec["table"][len(spec["table"]) // 3]})
    ctx.add_sample({"tree": "v5 auth", "root": {k: v for k, v in spec["trees"]["v5"]["auth"].items() if k != "c"},
                    "children": [c.get("p") or c.get("k") for c in spec["trees"]["v5"]["auth"]["c"]]})
    ctx.traces = res["txs"] + res["mutants"]
    ctx.extra["replay"] = {k: v for k, v in res.items() if k not in ("rows", "mismatches", "harness_errors", "versions")}
    ctx.extra["replay"]["rows_exercised"] = len(res["rows"])
    ctx.extra["replay"]["versions"] = sorted(res["versions"])
    lib.mc_evidence(
        ctx,
        rule="TLC checks DigestTree.tla on every shape with 0..2 transparent inputs / outputs (and a coinbase variant), 0..1 "
             "JoinSplits / Sapling spends / outputs / Orchard / Ironwood actions for versions 1-6, every signature case (shielded; "
             "input x ALL/NONE/SINGLE x ANYONECANPAY); every shape is materialised under the consensus branches of its version "
             "and every field instance mutated alone; evaluations = digest equalities with the tree interpreter + changed/unchanged "
             "comparisons; distinct_nontrivial = distinct 32-byte digests seen",
        evaluations=res["eq_txid"] + res["eq_auth"] + res["eq_sig"] + res["eq_read"] + res["comparisons"] + res["param_checks"],
        distinct_nontrivial=res["distinct_digests"],
        extra={"exhaustive_within_bounds": True, "table_rows": res["table_rows"], "rows_exercised": len(res["rows"]),
               "transactions": res["txs"], "one_field_mutants": res["mutants"]},
        assumptions=["BLAKE2b-256 / SHA-256 collision resistance (a changed pre-image changes the digest)",
                     "v6: self-consistency with the variant the pinned tree documents (anchors in the authorising digest, *_v6 "
                     "personalisations, Ironwood node), not equality with an external specification",
                     "SIGHASH_SINGLE for an input without a same-index output: the v5+ digest is the pinned tree's documented "
                     "fallback (hash of no outputs); ZIP 244 declares such a signature invalid",
                     "the header word / version group id are constants of a version and are not mutated; documented panics of "
                     "ill-formed calls (pre-Overwinter signature hashing, transparent case without inputs, mismatched txid_parts) "
                     "are not generated"])
    if not quick and not ctx.violations:
        selftest(ctx)


# ------------------------------------------------------------------------------------------------

def replay(ctx, path):
    bindir = lib.cargo_build("h_tx", ["c04_replay"])
    binpath = os.path.join(bindir, "c04_replay")
    with open(path) as f:
        rep = json.load(f)
    ctx.seed = rep["seed"]
    cases = [rep["case"]] if rep["kind"] != "tables" else []
    res = run_harness(ctx, binpath, rep["spec"], cases, rep["seed"], rep.get("eq_on_mutants", True), "replay", tables=rep["kind"] == "tables")
    judge(ctx, res, rep["spec"], cases, rep["seed"], rep.get("eq_on_mutants", True))
    if not res["mismatches"]:
        lib.log("replay: the code now agrees with the specification on this case")


def selftest(ctx):
    """Binding demonstration: a perturbed tree / table cell must be reported by the harness, and a perturbed
    specification must be refuted by TLC's theorems."""
    bindir = lib.cargo_build("h_tx", ["c04_replay"])
    binpath = os.path.join(bindir, "c04_replay")
    d = lib.stage_specs(ctx, AREA)
    r = run_tlc(ctx, d, name="self", max_io=2, sh_counts=(0, 1), term_counts=(0,))
    spec, tcases = spec_from(r)
    cases = tlc_cases(tcases, True, ctx.seed)
    # a manageable subset: every 5th case
    cases = cases[::5]

    # (for perturbed table cells: without TLC's concrete leaf sets, which would expose the inconsistency as a tool error)
    bare = [{k: v for k, v in c.items() if k != "pred"} for c in cases]

    def expect(name, spec_, kind, needle=None, cases_=None):
        res = run_harness(ctx, binpath, spec_, cases_ or (bare if kind == "sensitivity" else cases), ctx.seed, False, "self_" + name)
        ms = [m for m in res["mismatches"] if m["kind"] == kind]
        if not ms:
            raise lib.ToolError("selftest: perturbation '%s' was not reported" % name)
        if needle and not any(needle in m["what"] or needle in m.get("row", "") for m in ms):
            raise lib.ToolError("selftest: perturbation '%s' reported for another reason: %s" % (name, ms[0]["what"][:300]))
        lib.log("selftest ok: %s -> %s" % (name, ms[0]["what"][:160]))

    res = run_harness(ctx, binpath, spec, cases, ctx.seed, False, "self_base")
    if res["mismatches"]:
        raise lib.ToolError("selftest: unperturbed cases are reported: %s" % res["mismatches"][0])

    def clone():
        return json.loads(json.dumps(spec))

    def find_nodes(n, pred, acc):
        if isinstance(n, dict):
            if pred(n):
                acc.append(n)
            for v in n.values():
                find_nodes(v, pred, acc)
        elif isinstance(n, list):
            for v in n:
                find_nodes(v, pred, acc)
        return acc

    # (a) one personalisation string of the v5 txid tree
    s = clone()
    for n in find_nodes(s["trees"]["v5"]["txid"], lambda n: n.get("p") == "ZTxIdSOutM__Hash", []):
        n["p"] = "ZTxIdSOutM_XHash"
    expect("personalisation", s, "equality", "txid of a v5")
    # (b) the empty-bundle personalisation of the v6 Ironwood authorising digest
    s = clone()
    for n in find_nodes(s["trees"]["v6"]["auth"], lambda n: n.get("p") == "ZTxAuthIrnwdH_v6" and n.get("c") == [], []):
        n["p"] = "ZTxAuthOrchaH_v6"
    expect("empty_bundle_personalisation", s, "equality", "auth_commitment of a v6")
    # (c) field order inside a node
    s = clone()
    for n in find_nodes(s["trees"]["v5"]["sig"], lambda n: n.get("p") == "Zcash___TxInHash" and n.get("c"), []):
        c = n["c"][0]["c"]
        c[2], c[3] = c[3], c[2]
    expect("field_order", s, "equality", "signature_hash (transparent")
    # (d) a slice boundary of the field table
    s = clone()
    s["fields"]["output.enc_c"]["len"] = 51
    expect("slice_boundary", s, "equality")
    # (e) a branch id
    s = clone()
    s["consts"]["branchIds"]["Nu6_1"][0] ^= 1
    expect("branch_id", s, "equality")
    # (f) table cells: an effecting field said to leave the txid unchanged; an excluded field said to change
    s = clone()
    for row in s["table"]:
        if row["ver"] == "v5" and row["dig"] == "txid" and row["f"] == "output.enc_m":
            row["out"] = "unchanged"
    expect("table_cell_txid", s, "sensitivity", "v5|txid")
    s = clone()
    for row in s["table"]:
        if row["ver"] == "v6" and row["dig"] == "txid" and row["f"] == "sapling.anchor":
            row["out"] = "changes"
    expect("table_cell_v6_anchor", s, "sensitivity", "v6|txid")
    s = clone()
    for row in s["table"]:
        if row["ver"] == "v5" and row["dig"] == "sig" and row["f"] == "in.sequence" and row["rel"] == "other" and row["ac"]["acp"]:
            row["out"] = "changes"
    expect("table_cell_acp", s, "sensitivity", "in.sequence|other")
    s = clone()
    for row in s["table"]:
        if row["ver"] == "v4" and row["dig"] == "sig" and row["f"] == "coin.value" and row["rel"] == "same":
            row["out"] = "unchanged"
    expect("table_cell_v4_value", s, "sensitivity", "coin.value|same")
    # (g) the parse table
    s = clone()
    p = s["consts"]["parse"]
    if isinstance(p, list):
        p[0x84] = True
    else:
        p[str(0x84)] = True
    expect("parse_table", s, "parse", "0x84", cases_=cases[:1])

    # (h) the specification's theorems are not vacuous: perturbed definitions are refuted by TLC
    src = open(os.path.join(d, "DigestTree.tla")).read()
    perturbations = [
        ("sequence digest drops the sequence", 'SequenceDigest == H("ZTxIdSequencHash", << Each("vin", << F("in.sequence") >>) >>)',
         'SequenceDigest == H("ZTxIdSequencHash", << Each("vin", << >>) >>)'),
        ("amounts committed under ANYONECANPAY", 'SigAmounts == If(Acp, Empty("ZTxTrAmountsHash"),', 'SigAmounts == If(Base("none"), Empty("ZTxTrAmountsHash"),'),
        ("memo chunk dropped", 'H("ZTxIdSOutM__Hash", << Each("outputs", << F("output.enc_m") >>) >>),', 'H("ZTxIdSOutM__Hash", << >>),'),
        ("v6 anchor in neither digest", '\\o (IF ver = "v6" THEN << If(NonEmpty("spends"), F("sapling.anchor"), Nothing) >> ELSE << >>)', ''),
        ("role of the Orchard proof", '[] f \\in { "spend.proof", "output.proof", "orchard.proof", "ironwood.proof" } ->',
         '[] f \\in { "spend.proof", "output.proof", "ironwood.proof" } ->'),
        ("v4 sequence exclusion", '\\/ f = "in.sequence" /\\ (ac.acp \\/ ac.base # "all") /\\ rel # "same"', '\\/ f = "in.sequence" /\\ ac.acp /\\ rel # "same"'),
    ]
    for (what, old, new) in perturbations:
        if old not in src:
            raise lib.ToolError("selftest: perturbation anchor for '%s' not found in the spec" % what)
        pd = ctx.path("spec_perturbed")
        os.makedirs(pd, exist_ok=True)
        for fn in os.listdir(d):
            if fn.startswith("MC_DigestTree"):
                with open(os.path.join(pd, fn), "w") as f:
                    f.write(open(os.path.join(d, fn)).read())
        with open(os.path.join(pd, "DigestTree.tla"), "w") as f:
            f.write(src.replace(old, new))
        r2 = run_tlc(ctx, pd, name="p", max_io=2, sh_counts=(0, 1), term_counts=(0,), emit=False, expect_ok=False, timeout=600)
        if r2.ok:
            raise lib.ToolError("selftest: TLC accepts the specification with: %s" % what)
        if not r2.invariant:
            raise lib.ToolError("selftest: TLC failed on '%s' for an unrelated reason" % what)
        lib.log("selftest ok: '%s' refuted by TLC (%s)" % (what, r2.invariant))
