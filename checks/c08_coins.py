"""C08, transparent coins as proposal inputs (the wallet crates built WITH `transparent-inputs`): Coins.tla / Trace_Coins.tla.

1. TLC explores MC_Shield.tla (MC_Coins plus the wallet spending its own coins: a shielding proposal turned into a stored
   pending transaction at once, under a policy needing 0 or 1 confirmations, expiring never or ExpiryDelta blocks after
   its target; the environment reports it mined or lets it expire; tip moves, rewinds): two live shielding transactions
   never share a coin unless the wallet was rewound below the younger one's target (NoSharedLiveShield), a shielding
   transaction only spends counted value and keeps its coins out of the ledger and ineligible while it is live or mined
   (ShieldTakesCounted), eligibility is never wider than the ledger (EligibleIsCounted) - and the ledger theorems of
   MC_Coins survive the new action.
2. The C01 coin driver (harness package h_wallet_t, bin c01t_driver, modes `shield-scenarios` / `shield`) interleaves the
   wallet histories of C01 (shielded operations, UTXO reports, full transparent transactions in both arrival orders, status
   updates, rewinds) with propose_shielding (greedy selector; source address subsets over three addresses of two accounts;
   confirmation policies (1,1) (1,2) (1,3) (2,4) (2,5) (3,10) with and without zero-conf shielding; thresholds around the
   selected sum; lock requests; selector policies Exclude / PreferUnlocked / PreferLocked), create_proposed_transactions
   on kept - possibly stale - proposals (real transparent signatures, mock Sapling provers; default expiry, at once, a
   little later, never), the environment mining the shielding transaction (learnt from a scanned block, a full-transaction
   delivery or a status update) or letting it expire, lock_outputs / unlock_proposal_inputs / clear_locked_outputs on coins.
   Every event is validated by TLC against Trace_Coins.tla (EXTENDS Trace_Wallet): a proposal's inputs must be EXACTLY the
   coins of the requested addresses that are eligible (worth more than the marginal fee; mined with the confirmations the
   policy requires at target = tip + 1, or - zero-conf shielding - unmined but known not to have expired; no unexpired
   linked spender, stored pending ones included; not locked by an owner the selector does not admit), none twice, their
   value >= the threshold and = shielded output + fee (for a transfer, relationally: every selected coin belongs to the
   requested account, pays a listed address if a list was given, is eligible; inputs = payment + change + fee); lock
   requests lock exactly the selected coins, all or nothing; refusals are
   relational (funds clearly sufficient may not be refused for lack of funds); a created transaction spends exactly the
   proposal's coins, all of the signing account, pays value - fee to that account's internal shielded address, expires
   where asked, and from then on its coins are out of the coin ledger (C01's CoinLedgerLaw, checked on every event) and
   ineligible until it expires; lock columns and get_locked_outputs equal the specification's lock state after every event.

Called from checks/c08.py: run_part(ctx) -> stats, selftest_part(ctx), replay_part(ctx, replay_object).
"""
import json
import os

from . import lib
from . import c01_coins

AREA = "Wallet"
BIN = c01_coins.BIN
KIND = "coin_proposal_trace_rejected"
OPS = ("pshield", "ptrans", "cshield", "clock", "cunlock", "cclear")


def write_mc_cfg(path, spec, inv, maxops):
    with open(path, "w") as f:
        f.write("SPECIFICATION %s\nCONSTANTS\n  ExpiryDelta = 1\n  Dust = 5\n  Maturity = 2\n  MaxH = 3\n  E = 2\n"
                "  MaxOps = %d\nINVARIANT %s\nCHECK_DEADLOCK FALSE\n" % (spec, maxops, inv))


def drive(ctx, bindir, name, args, seed):
    path = ctx.path("strace_%s.ndjson" % name)
    lib.run_bin(os.path.join(bindir, BIN), [path] + [str(a) for a in args], env_extra={"VERIF_SEED": str(seed)}, timeout=3000)
    return path


def trace_stats(path):
    st = {"events": 0, "histories": 0, "proposals": 0, "proposals_ok": 0, "coins_selected": 0, "coins_passed_over": 0,
          "ok_several_coins": 0, "ok_several_addresses": 0, "ok_with_lock": 0, "ok_through_admitted_lock": 0, "ok_zero_conf": 0,
          "ok_with_confirmations": 0, "ok_threshold_met_exactly": 0, "refused_insufficient": 0, "refused_inputs_locked": 0,
          "refused_scan_required": 0, "refused_other": 0, "refused_threshold_one_above": 0, "creates_ok": 0, "creates_refused": 0,
          "created_never_expiring": 0, "shielding_tx_mined_in_block": 0, "shielding_tx_reported_mined": 0,
          "shielding_tx_redelivered_unmined": 0, "lock_ok": 0, "lock_failure": 0, "unlock": 0, "clear": 0,
          "transfers": 0, "transfers_ok": 0, "transfer_coins_selected": 0, "transfer_ok_other_accounts_coin_available": 0,
          "transfer_ok_unlisted_address_coin_available": 0, "transfer_ok_account_2": 0, "transfer_ok_with_lock": 0, "transfers_refused": 0,
          "states_with_coin_locks": 0, "states_with_pending_shielding_spend": 0, "distinct_judgements": 0}
    ad = {}
    created = set()
    seen = set()
    last_ok_sum = None
    sample = None
    with open(path) as f:
        for line in f:
            r = json.loads(line)
            st["events"] += 1
            a = r["a"]
            if a == "reset":
                st["histories"] += 1
                ad, created, last_ok_sum = {}, set(), None
            elif a == "utxo":
                ad[r["c"]] = r["ad"]
            elif a == "fulltx":
                for o in r["outs"]:
                    ad[o[0]] = o[3]
                if r["t"] >= 100000 and r["res"] == "ok":
                    st["shielding_tx_reported_mined" if r["h"] != -1 else "shielding_tx_redelivered_unmined"] += 1
            elif a == "txstatus" and r["t"] >= 100000 and r["res"] == "ok":
                st["shielding_tx_reported_mined"] += 1
            elif a == "block":
                st["shielding_tx_mined_in_block"] += sum(1 for t in r["txs"] if t["t"] in created)
            elif a == "pshield":
                st["proposals"] += 1
                rows = r["coins"]["rows"]
                if r["res"] == "ok":
                    ins = [i[0] for i in r["p"]["inputs"]]
                    total = sum(i[1] for i in r["p"]["inputs"])
                    st["proposals_ok"] += 1
                    st["coins_selected"] += len(ins)
                    st["coins_passed_over"] += sum(1 for x in rows if ad.get(x["c"]) in r["addrs"] and x["c"] not in ins)
                    st["ok_several_coins"] += 1 if len(ins) > 1 else 0
                    st["ok_several_addresses"] += 1 if len({ad.get(c) for c in ins}) > 1 else 0
                    st["ok_with_lock"] += 1 if r["lock"][0] >= 0 else 0
                    locked_before = {x[0] for x in r["coins"]["locks"]["rows"]} if r["lock"][0] < 0 else set()
                    st["ok_through_admitted_lock"] += 1 if r["admitted"] and locked_before & set(ins) else 0
                    st["ok_zero_conf" if r["zc"] else "ok_with_confirmations"] += 1
                    st["ok_threshold_met_exactly"] += 1 if r["threshold"] == total else 0
                    last_ok_sum = total
                    key = json.dumps([sorted(ins), r["addrs"], r["untrusted"], r["zc"], r["admitted"], r["post"]["tip"]])
                    seen.add(key)
                    if sample is None and len(ins) > 1 and r["lock"][0] >= 0:
                        sample = {k: r[k] for k in ("a", "res", "addrs", "to", "trusted", "untrusted", "zc", "threshold", "lock", "admitted", "p")}
                else:
                    k = {"insufficient": "refused_insufficient", "inputs-locked": "refused_inputs_locked",
                         "scan-required": "refused_scan_required"}.get(r["res"], "refused_other")
                    st[k] += 1
                    st["refused_threshold_one_above"] += 1 if last_ok_sum is not None and r["threshold"] == last_ok_sum + 1 else 0
            elif a == "ptrans":
                st["transfers"] += 1
                if r["res"] == "ok":
                    rows = r["coins"]["rows"]
                    ins = [i[0] for i in r["p"]["inputs"]]
                    st["transfers_ok"] += 1
                    st["transfer_coins_selected"] += len(ins)
                    # a larger coin of the other account / of an unlisted address was on record: a dropped filter would have taken it
                    smallest = min(i[1] for i in r["p"]["inputs"])
                    st["transfer_ok_other_accounts_coin_available"] += 1 if any(x["acct"] != r["acct"] and x["v"] > smallest for x in rows) else 0
                    st["transfer_ok_unlisted_address_coin_available"] += 1 if r["listed"] and any(
                        x["acct"] == r["acct"] and ad.get(x["c"]) not in r["addrs"] and x["v"] > smallest for x in rows) else 0
                    st["transfer_ok_account_2"] += 1 if r["acct"] == 2 else 0
                    st["transfer_ok_with_lock"] += 1 if r["lock"][0] >= 0 else 0
                    seen.add(json.dumps(["t", sorted(ins), r["acct"], r["addrs"], r["listed"], r["untrusted"], r["zc"], r["amount"], r["post"]["tip"]]))
                else:
                    st["transfers_refused"] += 1
            elif a == "cshield":
                st["creates_ok" if r["res"] == "ok" else "creates_refused"] += 1
                for t in r["txs"]:
                    created.add(t["t"])
                    st["created_never_expiring"] += 1 if t["exp"] == -100 else 0
            elif a == "clock":
                st["lock_ok" if r["res"] == "ok" else "lock_failure"] += 1
            elif a == "cunlock":
                st["unlock"] += 1
            elif a == "cclear":
                st["clear"] += 1
            cp = r.get("coins")
            if cp and cp.get("chk"):
                st["states_with_coin_locks"] += 1 if cp["locks"]["rows"] else 0
                st["states_with_pending_shielding_spend"] += 1 if any(s[0] >= 100000 and s[1] == -1 for x in cp["rows"] for s in x["sp"]) else 0
    st["distinct_judgements"] = len(seen)
    return st, sample


def _explain_proposal(ctx, k):
    """The eligible set the specification computed for the proposal at event k of the cut history (printed by the EXPLAIN=1
    run c01_coins._explain just made; its output is the last TLC run's)."""
    import re
    try:
        out = _last_explain_output.get("out", "")
        hits = [m.start() for m in re.finditer(r'<<\s*"EXPLAINP",\s+%d,' % k, out)]
        if hits:
            return " ".join(out[hits[-1]:hits[-1] + 1500].split("]>>")[0].split()) + "]>>"
    except Exception:
        pass
    return ""


_last_explain_output = {}


def validate(ctx, d, path, what):
    acc, n, detail, r = lib.tlc_validate(ctx, d, "Trace_Coins", "Trace_Coins.cfg", path, timeout=1500, env_extra=c01_coins.trace_env())
    if acc:
        ctx.traces += n
        return True
    with open(path) as f:
        lines = f.read().splitlines()
    start = max(i for i in range(n) if json.loads(lines[i])["a"] == "reset")
    ev = json.loads(lines[n - 1])
    expect = c01_coins._explain(ctx, d, lines, start, n)
    if ev.get("a") in ("pshield", "ptrans"):
        expect = _explain_proposal(ctx, n - start) or expect
    if ev.get("a") in ("pshield", "ptrans", "cshield"):
        what_broke = ("a proposal spending coins / the transaction created from it breaks the eligibility, exactness, balance or "
                      "locking law of Trace_Coins.tla (or the ledger / lock state after the call disagrees)")
    else:
        what_broke = "the coin ledger, the lock state or the shielded ledger after the call disagrees with the specification"
    lib.violation(ctx, {"property": ctx.prop, "kind": KIND, "what": what, "first_unmatched_event": n - start,
                        "event": ev, "history": [json.loads(x) for x in lines[start:n]]},
                  "coins as proposal inputs: event %d of a recorded wallet history (operation '%s') is not a step of "
                  "Trace_Coins.tla - %s. logged: %s | specification: %s"
                  % (n - start, ev.get("a"), what_broke,
                     json.dumps({k: ev[k] for k in ev if k not in ("post", "coins")})[:1400], expect[:1200]))
    return False


def run_part(ctx):
    bindir = lib.cargo_build("h_wallet_t", [BIN])
    d = lib.stage_specs(ctx, AREA)
    lib.sany(os.path.join(d, "Trace_Coins.tla"))

    # (1) the specification alone
    write_mc_cfg(os.path.join(d, "MC_Shield_lean.cfg"), "LeanSpec", "SInvLean", 6)
    r = lib.tlc(ctx, d, "MC_Shield", "MC_Shield_lean.cfg", workers=8, timeout=1200)
    lib.require_coverage(r, ["LeanNext", "Shield", "ShieldMined"])
    lib.account_tlc(ctx, r)
    if not ctx.quick():
        write_mc_cfg(os.path.join(d, "MC_Shield_full.cfg"), "SSpec", "SInv", 4)
        r = lib.tlc(ctx, d, "MC_Shield", "MC_Shield_full.cfg", workers=8, timeout=3000, coverage=False)
        lib.account_tlc(ctx, r)

    # (2) recorded executions of the real wallet (transparent-inputs build), validated by TLC
    plans = [("scenarios", ["shield-scenarios"])]
    plans += [("base", ["shield", 5, 90]), ("ironwood", ["shield", 2, 80, "ironwood"])] if ctx.quick() else \
        [("base%d" % i, ["shield", 20, 110]) for i in range(2)] + [("ironwood", ["shield", 12, 110, "ironwood"])]
    totals = {}
    paths = []
    for i, (name, args) in enumerate(plans):
        path = drive(ctx, bindir, name, args, ctx.seed * 100 + 80 + i)
        st, sample = trace_stats(path)
        for k, v in st.items():
            totals[k] = totals.get(k, 0) + v
        if sample:
            ctx.add_sample(sample)
        paths.append((name, path))
    if ctx.quick():
        allp = ctx.path("strace_all.ndjson")
        with open(allp, "w") as out:
            for _, p in paths:
                with open(p) as f:
                    out.write(f.read())
        validate(ctx, d, allp, "+".join(n for n, _ in paths))
    else:
        for name, p in paths:
            if not validate(ctx, d, p, name):
                break
    if not ctx.violations:
        need = {"proposals_ok": 40, "coins_selected": 100, "coins_passed_over": 40, "ok_several_addresses": 5, "ok_with_lock": 8,
                "ok_through_admitted_lock": 2, "ok_zero_conf": 10, "ok_with_confirmations": 10, "ok_threshold_met_exactly": 1,
                "refused_threshold_one_above": 1, "refused_inputs_locked": 1, "creates_ok": 8, "creates_refused": 2,
                "shielding_tx_mined_in_block": 2, "shielding_tx_reported_mined": 2, "lock_ok": 3, "lock_failure": 1,
                "transfers_ok": 10, "transfer_ok_other_accounts_coin_available": 3, "transfer_ok_unlisted_address_coin_available": 1,
                "transfer_ok_account_2": 2, "states_with_coin_locks": 30, "states_with_pending_shielding_spend": 30}
        low = {k: totals.get(k, 0) for k, v in need.items() if totals.get(k, 0) < v}
        if low:
            raise lib.ToolError("vacuity: the shielding driver produced too few judged situations: %s" % low)
    ctx.extra["coin_proposal_trace_stats"] = totals
    return totals


RULE = ("seeded histories on the real SQLite wallet built with transparent-inputs: the coin histories of C01 interleaved with "
        "propose_shielding (address subsets over three addresses of two accounts, six confirmation policies with and without "
        "zero-conf shielding, thresholds around the selected sum, lock requests, selector lock policies), propose_transfer funded "
        "from coins only (account, any address / address list, amounts), "
        "create_proposed_transactions on kept (possibly stale) proposals with real transparent signatures, the shielding "
        "transaction mined (scanned block / full transaction / status update) or left to expire, direct lock / unlock / clear on "
        "coins; every proposal's inputs must equal the set of coins Coins.tla deems eligible, balance exactly, and every event's "
        "coin rows, lock state and balances must equal the specification's; distinct_nontrivial = distinct accepted proposals "
        "by (selected coins, addresses, policy, admitted owners, tip)")
ASSUMPTIONS = ["for propose_shielding the 'requested account' of C08 is identified by the source addresses (the API takes addresses; the "
               "destination account is only where the shielded output goes): a proposal may draw on another account's address, "
               "create_proposed_transactions then refuses it (AddressNotRecognized) - accepted as documented behaviour",
               "create_proposed_transactions does not re-check a stale proposal's coins: two pending transactions may spend the same "
               "coin (C08 constrains proposals, not creation); the ledger law still holds for both",
               "the selector's cap on the number of transparent inputs (thousands) is never reached; only the default / one more "
               "external address per account, no coinbase or ephemeral outputs",
               "a proposal refused with SyncRequired (no anchor yet) carries no claim"]


def selftest_part(ctx):
    """Binding demonstration: an ineligible coin added to a proposal, an eligible one removed, a wrong fee, a corrupted lock row
    and a dropped create event must be rejected."""
    bindir = lib.cargo_build("h_wallet_t", [BIN])
    d = lib.stage_specs(ctx, AREA)
    path = drive(ctx, bindir, "self", ["shield-scenarios"], 7)
    with open(path) as f:
        lines = f.read().splitlines()
    recs = [json.loads(x) for x in lines]
    env = c01_coins.trace_env()
    acc, n, _, _ = lib.tlc_validate(ctx, d, "Trace_Coins", "Trace_Coins.cfg", path, env_extra=env)
    if not acc:
        raise lib.ToolError("selftest (coin proposals): the unmodified trace is rejected at %d" % n)

    def expect_reject(name, new_lines, at, what):
        p = ctx.path(name)
        with open(p, "w") as f:
            f.write("\n".join(new_lines) + "\n")
        acc, n, _, _ = lib.tlc_validate(ctx, d, "Trace_Coins", "Trace_Coins.cfg", p, env_extra=env)
        if acc or (at is not None and n != at):
            raise lib.ToolError("selftest (coin proposals): %s not rejected at event %s (got accepted=%s at %s)" % (what, at, acc, n))
        return n

    def patched(i, fn):
        rec = json.loads(lines[i])
        fn(rec)
        return lines[:i] + [json.dumps(rec)] + lines[i + 1:]

    # an accepted proposal that passed over at least one known coin of the wallet
    def passed_over(r):
        ins = {i[0] for i in r["p"]["inputs"]}
        return [x for x in r["coins"]["rows"] if x["c"] not in ins]
    i1 = [i for i, r in enumerate(recs) if r["a"] == "pshield" and r["res"] == "ok" and len(r["p"]["inputs"]) >= 2 and passed_over(r)
          and r["lock"][0] < 0][0]
    extra = passed_over(recs[i1])[0]

    def add_coin(rec):
        rec["p"]["inputs"].append([extra["c"], extra["v"]])
        rec["p"]["change"][0] += extra["v"]
    expect_reject("sp_added_coin.ndjson", patched(i1, add_coin), i1 + 1, "ineligible coin added to a proposal")

    def drop_coin(rec):
        c = rec["p"]["inputs"].pop()
        rec["p"]["change"][0] -= c[1]
    expect_reject("sp_dropped_coin.ndjson", patched(i1, drop_coin), i1 + 1, "eligible coin missing from a proposal")

    def wrong_fee(rec):
        rec["p"]["fee"] += 1
    expect_reject("sp_fee.ndjson", patched(i1, wrong_fee), i1 + 1, "proposal that does not balance")

    def twice(rec):
        rec["p"]["inputs"].append(list(rec["p"]["inputs"][0]))
        rec["p"]["change"][0] += rec["p"]["inputs"][0][1]
    expect_reject("sp_twice.ndjson", patched(i1, twice), i1 + 1, "coin selected twice")

    i2 = [i for i, r in enumerate(recs) if r.get("coins", {}).get("chk") and r["coins"]["locks"]["rows"]][0]

    def lock_row(rec):
        rec["coins"]["locks"]["rows"][0][2] += 1
    expect_reject("sp_lock_row.ndjson", patched(i2, lock_row), i2 + 1, "corrupted lock row")

    i3 = [i for i, r in enumerate(recs) if r["a"] == "cshield" and r["res"] == "ok"][0]

    def created_fee(rec):
        rec["txs"][0]["outs"][0]["v"] += 1
    expect_reject("sp_created_value.ndjson", patched(i3, created_fee), i3 + 1, "created transaction paying more than inputs - fee")
    n = expect_reject("sp_dropped_create.ndjson", lines[:i3] + lines[i3 + 1:], None, "dropped create event")
    lib.log("selftest (coin proposals) ok: added / missing / repeated coin, unbalanced proposal, corrupted lock row and created "
            "value rejected at their events; dropped create event rejected at %d" % n)


def replay_part(ctx, rep):
    lib.cargo_build("h_wallet_t", [BIN])
    d = lib.stage_specs(ctx, AREA)
    tp = ctx.path("coin_proposal_replay_trace.ndjson")
    with open(tp, "w") as f:
        for e in rep["history"]:
            f.write(json.dumps(e) + "\n")
    if validate(ctx, d, tp, "replay"):
        lib.log("replay: the recorded history is accepted by the specification")
