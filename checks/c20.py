"""C20 - chain-history tree (zcash_history): roots equal a from-scratch rebuild, append/truncate are
inverse, minimal partial views suffice, node records round-trip.

1. TLC checks spec/HistoryMMR/HistoryMMR.tla (free term algebra): in every explored state the
   array is Build(leaves), the root is the from-scratch root, Truncate(Append(x)) restores, an
   operation on exactly Needed equals the operation on the whole array and reads all of Needed,
   every field rule computes the meaning of its field, heights count leaves.
2. The same TLC runs print every edge (prefix + operation + predicted links / count / length /
   Needed / root TERM) and the layout/rule tables.  harness/h_core/src/bin/c20_replay.rs executes
   them on real Tree<V1>, Tree<V2>, Tree<V3> built from exactly Needed and compares node data with
   the evaluation of the term by an interpreter of the emitted tables (own serialiser + blake2b).
3. Seeded schedules (long random interleavings) are run through TLC the same way (TLC computes the
   predictions and checks the theorems along them) and replayed.
4. Pure serialisation records and CompactSize values across all classes (above 0x02000000 too).
"""
import json
import os
import random

from . import lib

AREA = "HistoryMMR"
INVS = ("ArrIsBuild RootIsRebuild LenLaw AppendTruncateRestores ViewSuffices NeededExact ViewInArray "
        "Sorted FieldLaws HeightLaw")


# ------------------------------------------------------------------------------------------------
# TLC configurations (generated into the work dir)

def tla_set(xs):
    return "{" + ", ".join(str(x) for x in sorted(set(xs))) + "}"


def tla_seq(xs):
    return "<<" + ", ".join(str(x) for x in xs) + ">>" if xs else "<< >>"


def write_model(d, name, starts, max_steps, scheds, emit=True, max_leaves=100000):
    """MC_<name>.tla / .cfg: constants that a cfg file cannot express are overridden by definitions."""
    with open(os.path.join(d, "MC_%s.tla" % name), "w") as f:
        f.write("---- MODULE MC_%s ----\nEXTENDS HistoryMMR\n" % name)
        f.write("StartDef == %s\n" % tla_set(starts))
        f.write("SchedsDef == %s\n" % (tla_seq([tla_seq(s) for s in scheds])))
        f.write("====\n")
    with open(os.path.join(d, "MC_%s.cfg" % name), "w") as f:
        f.write("SPECIFICATION Spec\nCONSTANTS\n  StartSizes <- StartDef\n  MaxSteps = %d\n  MaxLeaves = %d\n"
                "  Scheds <- SchedsDef\n  Emit = %s\nVIEW View\nINVARIANTS %s\nCHECK_DEADLOCK FALSE\n"
                % (max_steps, max_leaves, "TRUE" if emit else "FALSE", INVS))
    return "MC_%s" % name, "MC_%s.cfg" % name


def make_schedules(seed, target, quick):
    """Seeded op-code sequences (0 T keep view, 1 T fresh view, 2 A keep view, 3 A fresh view)."""
    rnd = random.Random(seed * 7919 + 17)
    scheds = []

    def grow(s, n, to, p_reload):
        while n < to:
            s.append(3 if rnd.random() < p_reload else 2)
            n += 1
        return n

    def shrink(s, n, to, p_reload):
        while n > max(to, 1):
            s.append(1 if rnd.random() < p_reload else 0)
            n -= 1
        return n

    # (a) biased random walk up to `target` leaves, views reloaded half of the time
    s, n = [], 1
    while n < target:
        if n >= 2 and rnd.random() < 0.22:
            s.append(rnd.choice([0, 1]))
            n -= 1
        else:
            s.append(rnd.choice([2, 3]))
            n += 1
    scheds.append(s)
    # (b) saw-tooth across powers of two with long runs on one kept view
    s, n = [], 1
    # (every power of two below is crossed downwards: a truncation of a complete tree)
    for top in ([8, 16, 33, 64, 70, 129, 257] if quick else [8, 16, 33, 64, 70, 129, 255, 257, 513]):
        n = grow(s, n, top + rnd.randint(0, 3), 0.1)
        n = shrink(s, n, top - rnd.randint(2, min(top - 1, 24)), 0.15)
    scheds.append(s)
    # (c) one object used for everything it can be used for (reload only when forced)
    s, n = [], 1
    lim = target // 2
    while n < lim:
        r = rnd.random()
        if n >= 2 and r < 0.3:
            s.append(0)
            n -= 1
        else:
            s.append(2)
            n += 1
    n = shrink(s, n, rnd.randint(1, 5), 0.0)
    scheds.append(s)
    # (d) append / truncate pairs and triples at every size of a random window
    s, n = [], 1
    lo = rnd.randint(20, 90)
    n = grow(s, n, lo, 0.5)
    for _ in range(40 if quick else 120):
        k = rnd.randint(1, 3)
        for _ in range(k):
            s.append(rnd.choice([2, 3]))
        for _ in range(k):
            s.append(rnd.choice([0, 1]))
        s.append(rnd.choice([2, 3]))
        n += 1
    scheds.append(s)
    return scheds


# ------------------------------------------------------------------------------------------------

def tlc_emit(ctx, d, module, cfg, timeout=1500, xss="64m"):
    r = lib.tlc(ctx, d, module, cfg, workers=1, timeout=timeout, coverage=True, xss=xss)
    tables = r.prints("TABLE")
    inits = r.prints("INIT")
    edges = r.prints("EDGE")
    if len(tables) != 3 or not inits or not edges:
        raise lib.ToolError("TLC emitted %d tables, %d inits, %d edges" % (len(tables), len(inits), len(edges)))
    return r, tables, inits, edges


def write_cases(path, tables, inits, edges, sched=False, ser=0, versions=None):
    with open(path, "w") as f:
        for t in tables:
            f.write(json.dumps(dict(t, T="table")) + "\n")
        for t in inits:
            f.write(json.dumps(dict(t, T="init")) + "\n")
        for t in edges:
            f.write(json.dumps(dict(t, T="edge")) + "\n")
        if sched:
            f.write(json.dumps({"T": "sched"}) + "\n")
        if ser:
            f.write(json.dumps({"T": "ser", "count": ser}) + "\n")
        if versions:
            f.write(json.dumps({"T": "versions", "v": versions}) + "\n")


def run_harness(ctx, bindir, cases, seed=None):
    p = lib.run_bin(os.path.join(bindir, "c20_replay"), [cases],
                    env_extra={"VERIF_SEED": str(ctx.seed if seed is None else seed)}, timeout=1500)
    return json.loads(p.stdout.strip().splitlines()[-1])


def behaviour_steps(m, inits, edges, sched):
    """(init, steps up to and including the disagreeing one) of a reported behaviour mismatch."""
    b = m["behaviour"]
    init = [i for i in inits if i["n0"] == b["n0"] and i["sid"] == b["sid"]][0]
    if sched:
        g = sorted([e for e in edges if e["n0"] == b["n0"] and e["sid"] == b["sid"]], key=lambda e: e["idx"])
        steps = [e["step"] for e in g]
    else:
        e = edges[b["edge"]]
        steps = list(e["pre"]) + [e["step"]]
    return init, steps[: m["step"] + 1]


def judge(ctx, res, tables, inits, edges, sched, ser_count=0):
    for m in res["mismatches"][:3]:
        if m["kind"] == "behaviour":
            init, steps = behaviour_steps(m, inits, edges, sched)
            ops = "".join(s["op"] for s in steps)
            lib.violation(ctx, {"property": "C20", "kind": "behaviour", "seed": ctx.seed, "version": m["version"],
                                "tables": tables, "init": init, "steps": steps},
                          "zcash_history::Tree<V%d> disagrees with HistoryMMR.tla: start %d leaves, operations %s "
                          "(step %d, %d leaves after): %s"
                          % (m["version"], init["n0"], ops if len(ops) < 60 else ops[:25] + "..." + ops[-25:],
                             m["step"] + 1, m["n_after"], m["what"]))
        else:
            lib.violation(ctx, {"property": "C20", "kind": "ser", "seed": ctx.seed, "count": ser_count,
                                "tables": tables, "detail": m},
                          "node record serialisation disagrees with the ZIP 221 layout / does not round-trip: %s"
                          % json.dumps(m)[:1500])


def consume(ctx, bindir, name, tables, inits, edges, sched, totals, ser=0):
    cases = ctx.path("cases_%s.ndjson" % name)
    write_cases(cases, tables, inits, edges, sched=sched, ser=ser)
    res = run_harness(ctx, bindir, cases)
    n_beh = (len({(e["n0"], e["sid"]) for e in edges}) if sched else len(edges)) * 3
    if res["behaviours"] != n_beh:
        raise lib.ToolError("replay ran %d of %d behaviours" % (res["behaviours"], n_beh))
    judge(ctx, res, tables, inits, edges, sched, ser)
    for k in ("behaviours", "steps", "appends", "truncates", "reloads", "kept_views", "probes", "full_views", "roundtrips",
              "root_compares", "node_compares", "ser_records", "cs_values", "distinct_roots"):
        totals[k] = totals.get(k, 0) + res[k]
    totals["max_leaves"] = max(totals.get("max_leaves", 0), res["max_leaves"])
    lib.log("[replay] %s: %d behaviours x3 versions, %d steps, %d root comparisons, max %d leaves, %d mismatches"
            % (name, len(edges) if not sched else n_beh // 3, res["steps"], res["root_compares"], res["max_leaves"],
               res["mismatch_count"]))
    return res


def run(ctx):
    bindir = lib.cargo_build("h_core", ["c20_replay"])
    d = lib.stage_specs(ctx, AREA)
    lib.sany(os.path.join(d, "HistoryMMR.tla"))
    quick = ctx.quick()
    totals = {}

    # (1) every size: from each start size (array built from scratch) all operation sequences of length 2
    top = 72 if quick else 300
    mod, cfg = write_model(d, "sizes", range(1, top + 1), 2, [])
    r, tables, inits, edges = tlc_emit(ctx, d, mod, cfg)
    lib.require_coverage(r, ["NextFree"])
    lib.account_tlc(ctx, r)
    consume(ctx, bindir, "sizes", tables, inits, edges, False, totals)
    starts = list(range(1, 10)) + [15, 16, 17] + ([] if quick else [31, 32, 33, 63, 64, 65])
    depth = 7 if quick else 9
    target = 300 if quick else 700
    if ctx.violations:
        return finish(ctx, totals, tables, top, starts, depth, 0, target)
    ctx.add_sample({"start_leaves": edges[len(edges) // 2]["n0"],
                    "ops": [s["op"] for s in edges[len(edges) // 2]["pre"]] + [edges[len(edges) // 2]["step"]["op"]],
                    "predicted_len": edges[len(edges) // 2]["step"]["len"],
                    "predicted_peaks": edges[len(edges) // 2]["step"]["peaksAfter"]})

    # (2) all interleavings (operation x fresh-or-kept view) to a depth, around small sizes and powers of two
    mod, cfg = write_model(d, "inter", starts, depth, [])
    r, tables2, inits2, edges2 = tlc_emit(ctx, d, mod, cfg)
    lib.require_coverage(r, ["NextFree"])
    lib.account_tlc(ctx, r)
    consume(ctx, bindir, "inter", tables2, inits2, edges2, False, totals)
    if ctx.violations:
        return finish(ctx, totals, tables, top, starts, depth, 0, target)
    e = edges2[-1]
    ctx.add_sample({"start_leaves": e["n0"], "ops": [(s["op"], s["reload"]) for s in e["pre"]] + [(e["step"]["op"], e["step"]["reload"])],
                    "predicted_root_term": e["step"]["root"]})

    # (3) seeded long schedules; TLC predicts every step and checks the theorems along the way
    scheds = make_schedules(ctx.seed, target, quick)
    if not quick:
        scheds += make_schedules(ctx.seed + 1000, target - 150, quick)[:3] + make_schedules(ctx.seed + 2000, 257, quick)[:3]
    mod, cfg = write_model(d, "sched", [1], 0, scheds)
    r, tables3, inits3, edges3 = tlc_emit(ctx, d, mod, cfg, timeout=2400)
    lib.require_coverage(r, ["NextSched"])
    lib.account_tlc(ctx, r)
    if len(edges3) != sum(len(s) for s in scheds):
        raise lib.ToolError("TLC followed %d of %d scheduled operations" % (len(edges3), sum(len(s) for s in scheds)))
    res3 = consume(ctx, bindir, "sched", tables3, inits3, edges3, True, totals, ser=20000 if quick else 200000)
    e = edges3[len(edges3) // 3]
    ctx.add_sample({"schedule": e["sid"], "step": e["idx"], "op": e["step"]["op"], "fresh_view": e["step"]["reload"],
                    "needed_peaks": e["step"]["peaks"], "needed_extra": e["step"]["extra"],
                    "predicted_len": e["step"]["len"], "leaves": e["step"]["n"]})

    finish(ctx, totals, tables, top, starts, depth, len(scheds), target)
    if not quick and not ctx.violations:
        selftest(ctx)


def finish(ctx, totals, tables, top, starts, depth, n_scheds, target):
    if not ctx.violations:
        # vacuity guards on the binding (a behaviour that stops at a disagreement proves nothing here)
        for k in ("appends", "truncates", "reloads", "kept_views", "probes", "full_views", "roundtrips", "ser_records",
                  "cs_values"):
            if totals.get(k, 0) == 0:
                raise lib.ToolError("vacuity: no %s were exercised" % k)
        if totals.get("max_leaves", 0) < target:
            raise lib.ToolError("schedules reached only %d leaves" % totals.get("max_leaves", 0))
    ctx.traces = totals.get("behaviours", 0)
    ctx.extra["replay"] = totals
    ctx.extra["tables"] = {"versions": [t["version"] for t in tables], "fields": [len(t["fields"]) for t in tables]}
    lib.mc_evidence(
        ctx,
        rule="every edge of the TLC state graph of HistoryMMR.tla (start sizes 1..%d x all operation/view sequences of "
             "length 2; start sizes %s x all sequences of length <= %d) and every step of %d seeded schedules up to %d "
             "leaves is executed on Tree<V1>, Tree<V2>, Tree<V3> built from exactly Needed; evaluations = operations "
             "executed on real trees; distinct_nontrivial = distinct root hashes compared"
             % (top, starts, depth, n_scheds, target),
        evaluations=totals.get("steps", 0), distinct_nontrivial=totals.get("distinct_roots", 0),
        extra={"exhaustive_within_bounds": True, "max_leaves": totals.get("max_leaves", 0),
               "serialisation_records": totals.get("ser_records", 0), "compactsize_values": totals.get("cs_values", 0)},
        assumptions=["leaf heights are consecutive (the crate derives leaf counts from end_height - start_height + 1)",
                     "generated totals stay within u64 / U256 (sums that overflow are outside ZIP 221); extreme "
                     "work/counters appear in at most one leaf of a tree and in the pure serialisation records",
                     "truncating a one-leaf tree (an error in the crate) and the empty tree are outside the model"])


# ------------------------------------------------------------------------------------------------

def replay(ctx, path):
    bindir = lib.cargo_build("h_core", ["c20_replay"])
    with open(path) as f:
        rep = json.load(f)
    cases = ctx.path("replay_cases.ndjson")
    if rep["kind"] == "behaviour":
        steps = rep["steps"]
        edge = {"n0": rep["init"]["n0"], "sid": rep["init"]["sid"], "idx": len(steps), "pre": steps[:-1], "step": steps[-1]}
        write_cases(cases, rep["tables"], [rep["init"]], [edge], versions=[rep["version"]])
        ctx.seed = rep["seed"]
        res = run_harness(ctx, bindir, cases, seed=rep["seed"])
        judge(ctx, res, rep["tables"], [rep["init"]], [edge], False)
    else:
        write_cases(cases, rep["tables"], [], [], ser=rep["count"])
        ctx.seed = rep["seed"]
        res = run_harness(ctx, bindir, cases, seed=rep["seed"])
        judge(ctx, res, rep["tables"], [], [], False, rep["count"])
    if not res["mismatches"]:
        lib.log("replay: the code now agrees with the specification on this case")


def selftest(ctx):
    """Binding demonstration: perturbed predictions / tables must be reported by the harness, and a
    perturbed specification must be rejected by TLC's theorems."""
    bindir = lib.cargo_build("h_core", ["c20_replay"])
    d = lib.stage_specs(ctx, AREA)
    mod, cfg = write_model(d, "self", range(1, 13), 2, [])
    r, tables, inits, edges = tlc_emit(ctx, d, mod, cfg)

    def expect_reported(name, tables_, edges_, ser=0, needle=None):
        cases = ctx.path("self_%s.ndjson" % name)
        write_cases(cases, tables_, inits, edges_, ser=ser)
        res = run_harness(ctx, bindir, cases)
        if not res["mismatches"]:
            raise lib.ToolError("selftest: perturbation '%s' was not reported" % name)
        if needle and not any(needle in m["what"] for m in res["mismatches"]):
            raise lib.ToolError("selftest: perturbation '%s' reported for another reason: %s"
                                % (name, res["mismatches"][0]["what"][:300]))
        lib.log("selftest ok: %s -> %s" % (name, res["mismatches"][0]["what"][:140]))

    # unperturbed: no report
    cases = ctx.path("self_base.ndjson")
    write_cases(cases, tables, inits, edges, ser=500)
    res = run_harness(ctx, bindir, cases)
    if res["mismatches"]:
        raise lib.ToolError("selftest: unperturbed cases are reported: %s" % res["mismatches"][0])

    # (a) two leaves exchanged in a predicted root term
    e = json.loads(json.dumps([x for x in edges if x["step"]["n"] == 7 and x["step"]["op"] == "A"][0]))
    root = e["step"]["root"]
    root[0][0], root[0][1] = root[0][1], root[0][0]
    expect_reported("root_term", tables, [e], needle="from-scratch")
    # (b) truncation count off by one
    e = json.loads(json.dumps([x for x in edges if x["step"]["op"] == "T" and x["step"]["count"] >= 2][0]))
    e["step"]["count"] += 1
    expect_reported("trunc_count", tables, [e], needle="truncate_leaf returned")
    # (c) one needed entry withheld from the view: the real tree must miss it
    e = json.loads(json.dumps([x for x in edges if x["step"]["op"] == "T" and x["step"]["reload"]
                               and len(x["step"]["extra"]) >= 2 and not x["pre"]][0]))
    e["step"]["extra"] = e["step"]["extra"][1:]
    expect_reported("withheld_entry", tables, [e], needle="failed")
    # (d) a field rule changed in the table
    t2 = json.loads(json.dumps(tables))
    for t in t2:
        for fd in t["fields"]:
            if fd["f"] == "end_time":
                fd["rule"] = "left"
    expect_reported("field_rule", t2, [x for x in edges if x["n0"] == 5])
    # (e) field order changed in the layout
    t2 = json.loads(json.dumps(tables))
    for t in t2:
        t["fields"][1], t["fields"][2] = t["fields"][2], t["fields"][1]
    expect_reported("layout_order", t2, [x for x in edges if x["n0"] == 5])
    # (f) a CompactSize class boundary moved
    t2 = json.loads(json.dumps(tables))
    for t in t2:
        t["compact"][1]["max"] = "65534"
    expect_reported("compactsize_class", t2, [], ser=300)
    # (g) appended link list shortened
    e = json.loads(json.dumps([x for x in edges if x["step"]["op"] == "A" and len(x["step"]["new"]) >= 3][0]))
    e["step"]["new"] = e["step"]["new"][:-1]
    expect_reported("link_list", tables, [e], needle="links")

    # (h) the specification's theorems are not vacuous: perturbed definitions are refuted by TLC
    src = open(os.path.join(d, "HistoryMMR.tla")).read()
    perturbations = [
        ("bagging order", "BagFrom(ts, i + 1, Comb(acc, ts[i]))", "BagFrom(ts, i + 1, Comb(ts[i], acc))"),
        ("needed set", "{ p, p - s } \\cup SpineIdx", "{ p, p - s + 1 } \\cup SpineIdx"),
        ("merge condition", "IF k >= 2 /\\ NLeaves(EntryAt(a, new, len, stack[k - 1]).t) = NLeaves(EntryAt(a, new, len, stack[k]).t)",
         "IF k >= 2 /\\ NLeaves(EntryAt(a, new, len, stack[k - 1]).t) <= 2 * NLeaves(EntryAt(a, new, len, stack[k]).t)"),
        ("truncation count", "[count |-> Len(sp.lefts) + 1,", "[count |-> Len(sp.lefts) + (IF Len(sp.lefts) = 3 THEN 0 ELSE 1),"),
    ]
    for (what, old, new) in perturbations:
        if old not in src:
            raise lib.ToolError("selftest: perturbation anchor for '%s' not found in the spec" % what)
        pd = ctx.path("spec_perturbed")
        os.makedirs(pd, exist_ok=True)
        with open(os.path.join(pd, "HistoryMMR.tla"), "w") as f:
            f.write(src.replace(old, new))
        m2, c2 = write_model(pd, "p", range(1, 13), 2, [], emit=False)
        r2 = lib.tlc(ctx, pd, m2, c2, workers=2, timeout=600, expect_ok=False, coverage=False)
        if r2.ok:
            raise lib.ToolError("selftest: TLC accepts the specification with a perturbed %s" % what)
        if not (r2.invariant or "In applying the function" in r2.out or "Attempted to" in r2.out):
            raise lib.ToolError("selftest: TLC failed on the perturbed %s for an unrelated reason" % what)
        lib.log("selftest ok: perturbed %s refuted by TLC (%s)" % (what, r2.invariant or "evaluation error"))
