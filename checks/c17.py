"""C17 — pool-migration schedules, anchors, expiries, wake-ups and ZIP 318 labels stay canonical.

1. TLC checks the theorems of spec/Migration/Scheduling.tla (the RNG is the environment: every
   sequence of abstract draws) and of Classify.tla (all 11 664 points of the evidence lattice)
   exhaustively within small constants.
2. Code -> spec: c17_driver calls the real public functions (delays, cumulative heights, schedule,
   expiry, shuffles, anchor draw / redraw, earliest broadcast height, wake-up schedules incl.
   MigrationState::sync_wakeup_schedule) under ChaCha and degenerate streams, with small parameters
   and with the ZIP 318 ones, heights over the whole u32 range; Trace_Scheduling.tla evaluates the
   property's postconditions (wake-up minimality by brute force inside TLC) on every record.
3. The real classify / to_code / from_code are tabulated on a representative of every lattice point
   (+ chains of growing evidence with other representatives); Trace_Classify.tla checks the laws
   Complete / Sound / Monotone on that table.  classify_decrypted_tx is called on assembled v6
   transactions (Orchard / Ironwood / transparent / Sapling parts, decrypted outputs); the trace spec
   assembles the evidence from the logged projection and applies the same laws.
"""
import json
import os

from . import lib

AREA = "Migration"
TABLE = 11664
CHUNK = 60000
SCHED_KINDS = ["delay", "newdist", "heights", "zipsched", "expiry", "cexp", "shuffle", "shufflein", "grid", "anchor",
               "redraw", "earliest", "wakeups", "statewake"]
HI = 2147483647
OFF = 2147483648


def real(h):
    return h + OFF


# ------------------------------------------------------------------------------------------------
# TLC on the specifications alone

def write_mc_cfg(path, hi, maxt, maxiv, kinds, invs):
    with open(path, "w") as f:
        f.write("SPECIFICATION Spec\nCONSTANTS\n  Lo = 0\n  Hi = %d\n  ExpMod = 4\n  ExpWin = 8\n  AgeCap = 4\n" % hi)
        f.write("  MaxT = %d\n  MaxIv = %d\n  Kinds = {%s}\n" % (maxt, maxiv, ", ".join('"%s"' % k for k in kinds)))
        f.write("INVARIANTS %s\nCHECK_DEADLOCK FALSE\n" % " ".join(invs))


def model_check(ctx, d):
    # rejection loops: terminate under strong fairness of an acceptable draw, and only then
    r = lib.tlc(ctx, d, "Rejection", "MC_Rejection.cfg", workers=1, timeout=300)
    lib.account_tlc(ctx, r)
    r = lib.tlc(ctx, d, "Rejection", "MC_Rejection_unfair.cfg", workers=1, timeout=300, expect_ok=False)
    if "Temporal property Terminates was violated" not in r.out and "Temporal properties were violated" not in r.out:
        raise lib.ToolError("vacuity: without the fairness assumption the rejection loop should not be shown to terminate")
    r = lib.tlc(ctx, d, "MC_Classify", "MC_Classify.cfg", workers=8, timeout=900)
    lib.require_coverage(r, ["Eval"])
    if r.distinct != TABLE + 16:
        raise lib.ToolError("MC_Classify explored %d states, expected %d" % (r.distinct, TABLE + 16))
    lib.account_tlc(ctx, r)
    small = ["delay", "heights", "expiry", "shuffle", "anchor", "redraw", "earliest"]
    invs = ["ThmDelay", "ThmHeights", "ThmExpiry", "ThmShuffle", "ThmAnchor", "ThmRedraw", "ThmEarliest", "ThmWake"]
    runs = [("MC_small.cfg", 12, 0, 3, small), ("MC_wake.cfg", 5, 3, 1, ["wake"])]
    if not ctx.quick():
        runs = [("MC_small.cfg", 17, 0, 4, small), ("MC_wake.cfg", 6, 3, 1, ["wake"]), ("MC_wake4.cfg", 4, 4, 1, ["wake"])]
    for (cfg, hi, maxt, maxiv, kinds) in runs:
        write_mc_cfg(os.path.join(d, cfg), hi, maxt, maxiv, kinds, invs)
        r = lib.tlc(ctx, d, "MC_Scheduling", cfg, workers=8, timeout=2400)
        lib.require_coverage(r, ["Eval"])
        lib.account_tlc(ctx, r)


# ------------------------------------------------------------------------------------------------
# traces

def read_trace(path):
    with open(path) as f:
        return [json.loads(x) for x in f if x.strip()]


def write_trace(path, recs):
    with open(path, "w") as f:
        for r in recs:
            f.write(json.dumps(r) + "\n")


def describe(rec):
    """Human-readable one-liner of a scheduling record (heights decoded from offset-binary)."""
    r = dict(rec)
    if r.get("some") is False:
        r["out"] = None
    for k in ("start", "act", "fund", "tip", "prior", "bcast", "out"):
        if k in r and isinstance(r[k], int) and not (k == "out" and r.get("a") in ("shuffle", "shufflein")):
            r[k] = real(r[k])
    for k in ("hs", "es", "ps", "below", "above", "pe", "ce"):
        if k in r:
            r[k] = [real(x) for x in r[k]]
    if "tr" in r:
        r["tr"] = [{"id": t["id"], "a": real(t["a"]), "b": real(t["b"])} for t in r["tr"]]
    if "ws" in r:
        r["ws"] = [{"h": real(w["h"]), "c": w["c"]} for w in r["ws"]]
    if "txs" in r:
        r["txs"] = [dict(t, sched=real(t["sched"]), expiry=real(t["expiry"]), boundary=real(t["boundary"])) for t in r["txs"]]
    return json.dumps(r, sort_keys=True)


def sched_classes(recs):
    """Vacuity guard + measured coverage classes of a scheduling trace."""
    c = {}

    def hit(k):
        c[k] = c.get(k, 0) + 1
    for r in recs:
        a = r["a"]
        hit("kind:" + a)
        oc = r.get("oc", "ok")
        if oc != "ok":
            hit("%s:%s" % (a, oc))
            continue
        if a in ("heights", "zipsched") and r["hs"] and r["hs"][-1] == HI:
            hit("heights:saturated")
        if a == "expiry" and HI in r["es"]:
            hit("expiry:saturated")
        if a in ("anchor", "redraw"):
            hit("%s:%s" % (a, "some" if r["some"] else "none"))
            if r["some"] and r[{"anchor": "tip", "redraw": "bcast"}[a]] > HI - 10 * r["iv"]:
                hit(a + ":near-top")
        if a in ("wakeups", "statewake"):
            if a == "wakeups":
                tip = r["tip"]
                od = [t for t in r["tr"] if t["b"] - 1 < tip]
                if od:
                    hit("wakeups:overdue")
                    if r["ws"] and len(r["ws"][0]["c"]) > len(od):
                        hit("wakeups:folded")
                if len(r["ws"]) >= 2:
                    hit("wakeups:several")
                if any(len(w["c"]) >= 2 for w in r["ws"]):
                    hit("wakeups:shared")
                if r["tr"] and max(t["b"] for t in r["tr"]) > HI - 20:
                    hit("wakeups:near-top")
            else:
                if r["ws"]:
                    hit("statewake:nonempty")
                if any(t["transfer"] and t["state"] in ("signed", "awaiting") and t["hasb"] and
                       t["id"] not in [x for w in r["ws"] for x in w["c"]] for t in r["txs"]):
                    hit("statewake:dead-excluded")
    need = ["kind:" + k for k in SCHED_KINDS] + [
        "heights:saturated", "expiry:saturated", "anchor:some", "anchor:none", "anchor:near-top", "redraw:some",
        "redraw:none", "wakeups:overdue", "wakeups:folded", "wakeups:several", "wakeups:shared", "wakeups:near-top",
        "wakeups:err", "statewake:nonempty", "statewake:dead-excluded", "anchor:spin", "delay:spin", "shuffle:spin"]
    missing = [k for k in need if not c.get(k)]
    return c, missing


def validate_sched(ctx, d, recs, tag, max_report=3):
    """Validates scheduling records chunk by chunk; returns (validated, [bad records])."""
    bad = []
    done = 0
    i = 0
    n_chunk = 0
    while i < len(recs):
        chunk = recs[i:i + CHUNK]
        path = ctx.path("%s_%d.ndjson" % (tag, n_chunk))
        n_chunk += 1
        write_trace(path, chunk)
        ok, k, detail, res = lib.tlc_validate(ctx, d, "Trace_Scheduling", "Trace_Scheduling.cfg", path, timeout=2400)
        lib.account_tlc(ctx, res)
        if ok:
            if k != len(chunk):
                raise lib.ToolError("trace validation matched %d of %d records" % (k, len(chunk)))
            done += k
            i += len(chunk)
        else:
            if k < 1 or k > len(chunk):
                raise lib.ToolError("trace validation gave no usable index: %s" % detail[:300])
            done += k - 1
            bad.append(chunk[k - 1])
            i += k            # continue after the offending record
            if len(bad) >= max_report:
                break
    return done, bad


def run_classify_driver(ctx, bindir, chains, dtx, seed, name):
    """The classification trace: code tables, the whole classify table, chains, decrypted transactions."""
    path = ctx.path(name)
    lib.run_bin(os.path.join(bindir, "c17_driver"), ["classify", path, str(chains)],
                env_extra={"VERIF_SEED": str(seed)}, timeout=600)
    dpath = ctx.path("dtx_" + name)
    lib.run_bin(os.path.join(bindir, "c17_driver"), ["dtx", dpath, str(dtx)],
                env_extra={"VERIF_SEED": str(seed)}, timeout=1800)
    with open(path, "a") as f, open(dpath) as g:
        f.write(g.read())
    return path


def validate_classify(ctx, d, path):
    ok, k, detail, res = lib.tlc_validate(ctx, d, "Trace_Classify", "Trace_Classify.cfg", path, timeout=1800)
    lib.account_tlc(ctx, res)
    eager = len(res.tuples("EAGER"))
    return ok, k, detail, eager


def report_sched(ctx, bad):
    for rec in bad:
        lib.violation(ctx, {"property": "C17", "kind": "sched", "records": [rec]},
                      "the real scheduling code's outcome is not allowed by Scheduling.tla for call %s" % describe(rec))


def report_classify(ctx, seed, chains, dtx, k, detail):
    lib.violation(ctx, {"property": "C17", "kind": "classify", "seed": seed, "chains": chains, "dtx": dtx, "index": k,
                        "record": detail[:1500]},
                  "zip318::classify / classify_decrypted_tx / to_code / from_code breaks the laws of Classify.tla "
                  "(complete on full evidence, sound w.r.t. every completion, monotone, codes round-trip) at record %d: %s"
                  % (k, detail[:600]))


def stage(ctx):
    d = lib.stage_specs(ctx, AREA)
    for m in ("Scheduling", "Classify", "Rejection", "MC_Scheduling", "MC_Classify", "Trace_Scheduling", "Trace_Classify"):
        lib.sany(os.path.join(d, m + ".tla"))
    return d


def run(ctx):
    bindir = lib.cargo_build("h_tx", ["c17_driver"])
    d = stage(ctx)
    model_check(ctx, d)
    ctx.extra["model_states"] = ctx.states       # TLC states of the specification-only runs

    # (2) scheduling: code -> spec
    scale = 3 if ctx.quick() else 16
    spath = ctx.path("sched.ndjson")
    lib.run_bin(os.path.join(bindir, "c17_driver"), ["sched", spath, str(scale)],
                env_extra={"VERIF_SEED": str(ctx.seed)}, timeout=1200)
    recs = read_trace(spath)
    done, bad = validate_sched(ctx, d, recs, "sched")
    report_sched(ctx, bad)
    # vacuity guard (classes are read off the code's outputs, so it is only meaningful -- and only
    # enforced -- when every record was accepted)
    classes, missing = sched_classes(recs)
    if missing and not bad:
        raise lib.ToolError("vacuity: the driver produced no record of class %s" % ", ".join(missing))

    # (3) classification: the implementation's whole table, chains, decrypted transactions
    chains = 3000 if ctx.quick() else 30000
    dtx = 1500 if ctx.quick() else 12000
    cpath = run_classify_driver(ctx, bindir, chains, dtx, ctx.seed, "classify.ndjson")
    crecs = read_trace(cpath)
    if len(crecs) != 1 + TABLE + chains + dtx:
        raise lib.ToolError("classification trace has %d records" % len(crecs))
    ok, k, detail, eager = validate_classify(ctx, d, cpath)
    if not ok:
        report_classify(ctx, ctx.seed, chains, dtx, k, detail)
    decided = len({json.dumps(r, sort_keys=True) for r in crecs[1:1 + TABLE] if r["r"] != "U"})
    dtx_classes = {}
    for r in crecs[1 + TABLE + chains:]:
        dtx_classes[r["r"]] = dtx_classes.get(r["r"], 0) + 1
    if ok and any(dtx_classes.get(x, 0) < 10 for x in "UNPT"):
        raise lib.ToolError("vacuity: decrypted-transaction records do not reach every label: %s" % dtx_classes)

    ctx.traces = done + (k if ok else max(0, k - 1))
    nontrivial = len({json.dumps(r, sort_keys=True) for r in recs
                      if r.get("oc") == "ok" and (r.get("ws") or r.get("some") or r.get("hs") or r.get("out") or r.get("ds"))})
    for a in ("wakeups", "anchor", "heights", "statewake"):
        for r in recs:
            if r["a"] == a and r.get("oc") == "ok" and (len(r.get("ws", [])) >= 2 or r.get("some") or len(r.get("hs", [])) >= 3):
                ctx.add_sample(json.loads(describe(r)))
                break
    ctx.add_sample({"classify_table_row": crecs[1 + 7057]})
    ctx.extra["trace_classes"] = {k2: v for k2, v in sorted(classes.items())}
    ctx.extra["classify"] = {"table_points": TABLE, "decided_points": decided, "chains": chains,
                             "decrypted_transactions": dtx, "decrypted_transaction_labels": dtx_classes,
                             "decides_earlier_or_later_than_documented_procedure": eager}
    lib.mc_evidence(
        ctx,
        rule="every record of the driver's trace (one call of a real scheduling function, or one row of the real "
             "classify table / one chain of growing evidence) is validated by TLC against the postconditions of "
             "Scheduling.tla / the laws of Classify.tla; distinct_nontrivial = distinct scheduling records with a "
             "non-empty result + lattice points at which the real classify decides",
        evaluations=len(recs) + len(crecs), distinct_nontrivial=nontrivial + decided,
        extra={"exhaustive": False, "classify_table_exhaustive": True,
               "streams": ["chacha20(seed per record)", "zero", "ones", "alt 0x55../0xAA..", "counter",
                           "lemire ceil(j 2^64/b)", "ages 2^(a-1)"]},
        assumptions=[
            "heights are logged in offset-binary (h - 2^31): the full u32 range is validated exactly, no scaling",
            "intervals and delay caps above 2^30 are not exercised (TLC integers)",
            "termination under a degenerate stream is required only where Scheduling.tla derives that an acceptable "
            "draw occurs (DelayMustTerminate etc.); a call cut off by the word budget elsewhere is not judged",
            "wake-up minimality is decided by brute force over subsets of window ends (<= 8 transfers per instance); "
            "the equivalence with brute force over all heights is a TLC-checked theorem on the small model",
            "classify is judged by the laws Complete/Sound/Monotone, not by equality with the documented procedure: "
            "a classifier deciding earlier or later but lawfully is reported, not rejected",
            "classify_decrypted_tx is exercised on transactions assembled from generated (unproven, random) bundles "
            "and hand-made decrypted outputs, not on transactions decrypted by the wallet",
        ])


# ------------------------------------------------------------------------------------------------

def replay(ctx, path):
    bindir = lib.cargo_build("h_tx", ["c17_driver"])
    d = stage(ctx)
    with open(path) as f:
        rep = json.load(f)
    if rep.get("kind") == "sched":
        ip = ctx.path("replay_in.ndjson")
        op = ctx.path("replay_out.ndjson")
        write_trace(ip, rep["records"])
        lib.run_bin(os.path.join(bindir, "c17_driver"), ["rerun", ip, op], timeout=600)
        recs = read_trace(op)
        done, bad = validate_sched(ctx, d, recs, "replay")
        report_sched(ctx, bad)
        if not bad:
            lib.log("replay: the re-executed call(s) now satisfy the specification")
    elif rep.get("kind") == "classify":
        cpath = run_classify_driver(ctx, bindir, rep["chains"], rep.get("dtx", 0), rep["seed"], "replay_classify.ndjson")
        ok, k, detail, eager = validate_classify(ctx, d, cpath)
        if not ok:
            report_classify(ctx, rep["seed"], rep["chains"], rep.get("dtx", 0), k, detail)
        else:
            lib.log("replay: the classification table now satisfies the specification")
    else:
        raise lib.ToolError("unknown replay kind")


# ------------------------------------------------------------------------------------------------

def _expect_reject(ctx, d, recs, what, module="Trace_Scheduling", at=None):
    path = ctx.path("self_%d.ndjson" % _expect_reject.n)
    _expect_reject.n += 1
    write_trace(path, recs)
    ok, k, detail, res = lib.tlc_validate(ctx, d, module, module + ".cfg", path, timeout=900)
    if ok:
        raise lib.ToolError("selftest: corruption not detected (%s)" % what)
    if at is not None and k != at:
        raise lib.ToolError("selftest: corruption (%s) rejected at record %d, expected %d" % (what, k, at))
    lib.log("selftest ok: %s -> rejected at record %d" % (what, k))


_expect_reject.n = 0


def selftest(ctx):
    """Binding demonstration: a fresh trace of the real code is accepted; one corrupted field per
    record kind (and per conjunct of the wake-up postcondition) must be rejected at its index."""
    bindir = lib.cargo_build("h_tx", ["c17_driver"])
    d = stage(ctx)
    spath = ctx.path("sched.ndjson")
    lib.run_bin(os.path.join(bindir, "c17_driver"), ["sched", spath, "1"],
                env_extra={"VERIF_SEED": str(ctx.seed)}, timeout=600)
    recs = read_trace(spath)

    def pick(pred):
        for r in recs:
            if pred(r):
                return json.loads(json.dumps(r))
        raise lib.ToolError("selftest: no suitable record")

    pre = recs[:3]

    def corrupt(what, pred, mut):
        r = pick(pred)
        mut(r)
        _expect_reject(ctx, d, pre + [r], what, at=len(pre) + 1)

    okk = lambda a: (lambda r: r["a"] == a and r.get("oc") == "ok")
    corrupt("delay above cap", lambda r: okk("delay")(r) and r["ds"], lambda r: r["ds"].__setitem__(3, r["cap"] + 1))
    corrupt("height decreases", lambda r: okk("heights")(r) and len(r["hs"]) >= 3 and r["hs"][1] > r["start"],
            lambda r: r["hs"].__setitem__(1, r["hs"][0] - 1))
    corrupt("step above cap", lambda r: okk("heights")(r) and len(r["hs"]) >= 3 and r["hs"][-1] < HI - 10**7,
            lambda r: r["hs"].__setitem__(len(r["hs"]) - 1, r["hs"][-2] + r["cap"] + 1))
    corrupt("expiry off by one", lambda r: okk("expiry")(r), lambda r: r["es"].__setitem__(5, r["es"][5] - 1))
    corrupt("expiry wraps instead of saturating", lambda r: okk("expiry")(r) and HI in r["es"],
            lambda r: r["es"].__setitem__(r["es"].index(HI), -OFF + 100))
    corrupt("schedule expiry of another period", lambda r: okk("heights")(r) and r["which"] == "schedule" and r["es"] and r["es"][0] < HI,
            lambda r: r["es"].__setitem__(0, r["es"][0] + 34560))
    corrupt("shuffle repeats an index", lambda r: okk("shuffle")(r) and r["n"] >= 3, lambda r: r["out"].__setitem__(0, r["out"][1]))
    corrupt("in-place shuffle changes the multiset", lambda r: okk("shufflein")(r) and len(r["inp"]) >= 3,
            lambda r: r["out"].__setitem__(0, 77))
    corrupt("anchor at the most recent boundary", lambda r: okk("anchor")(r) and r["some"] and r["iv"] < 10**6,
            lambda r: r.__setitem__("out", r["tip"] - ((r["tip"] + OFF) % r["iv"])))
    corrupt("anchor off the grid", lambda r: okk("anchor")(r) and r["some"] and r["iv"] > 1, lambda r: r.__setitem__("out", r["out"] + 1))
    corrupt("anchor absent although a boundary exists", lambda r: okk("anchor")(r) and r["some"], lambda r: r.__setitem__("some", False))
    corrupt("anchor present although none exists", lambda r: okk("anchor")(r) and not r["some"],
            lambda r: r.update(some=True, out=r["tip"] - ((r["tip"] + OFF) % r["iv"])))
    corrupt("anchor too old", lambda r: okk("anchor")(r) and r["some"] and r["iv"] < 10**6 and r["tip"] > -OFF + 10**8 and
            r["fund"] < r["out"] - 5 * r["iv"] and r["act"] < r["out"] - 5 * r["iv"],
            lambda r: r.__setitem__("out", r["tip"] - ((r["tip"] + OFF) % r["iv"]) - 5 * r["iv"]))
    corrupt("redraw below the prior boundary", lambda r: okk("redraw")(r) and r["some"] and r["iv"] < 10**6 and r["out"] > -OFF + 10**7,
            lambda r: r.__setitem__("prior", r["out"] + 1))
    corrupt("earliest height one too early", lambda r: okk("earliest")(r) and -OFF + 10 < r["out"] < HI, lambda r: r.__setitem__("out", r["out"] - r["iv"]))
    corrupt("earliest height too late", lambda r: okk("earliest")(r) and -OFF + 10 < r["out"] < HI - 10**7 and r["iv"] < 10**6,
            lambda r: r.__setitem__("out", r["out"] + 1))
    corrupt("grid rounding", lambda r: okk("grid")(r) and r["iv"] > 1, lambda r: r["below"].__setitem__(0, r["below"][0] + 1))
    corrupt("panic recorded", lambda r: okk("anchor")(r), lambda r: r.__setitem__("oc", "panic"))
    corrupt("spin under a stream that must terminate", lambda r: okk("anchor")(r) and r["rng"] == "chacha" and r["some"],
            lambda r: r.__setitem__("oc", "spin"))
    multi = lambda r: okk("wakeups")(r) and len(r["ws"]) >= 2 and r["tip"] < HI - 10**6
    corrupt("wake-up in the past", lambda r: okk("wakeups")(r) and r["ws"] and r["ws"][0]["h"] == r["tip"] and r["tip"] > -OFF,
            lambda r: r["ws"][0].__setitem__("h", r["tip"] - 1))
    corrupt("wake-ups not increasing", multi, lambda r: r["ws"].reverse())
    corrupt("transfer covered twice", multi, lambda r: r["ws"][1]["c"].append(r["ws"][0]["c"][0]))
    corrupt("transfer not covered", lambda r: multi(r) and len(r["ws"][1]["c"]) >= 2, lambda r: r["ws"][1]["c"].pop())
    corrupt("wake-up past the deadline", lambda r: multi(r) and r["ws"][-1]["h"] > r["tip"],
            lambda r: r["ws"][-1].__setitem__("h", max(t["b"] for t in r["tr"])))

    def split_last(r):
        w = r["ws"][-1]
        last = w["c"].pop()
        r["ws"].append({"h": w["h"] + 1, "c": [last]})
    corrupt("one wake-up more than necessary",
            lambda r: okk("wakeups")(r) and r["ws"] and len(r["ws"][-1]["c"]) >= 2 and
            all(t["b"] - 1 >= r["ws"][-1]["h"] + 1 for t in r["tr"] if t["id"] == r["ws"][-1]["c"][-1]) and r["ws"][-1]["h"] > r["tip"],
            split_last)
    corrupt("infeasible transfer scheduled anyway", lambda r: r["a"] == "wakeups" and r["oc"] == "err",
            lambda r: r.update(oc="ok", ws=[{"h": r["tip"], "c": [t["id"] for t in r["tr"]]}]))
    corrupt("wrong transfer blamed", lambda r: r["a"] == "wakeups" and r["oc"] == "err" and
            any(t["b"] > t["a"] + 1 for t in r["tr"]),
            lambda r: r.__setitem__("err", [t["id"] for t in r["tr"] if t["b"] > t["a"] + 1][0]))
    corrupt("state-level schedule covers a proved transfer",
            lambda r: okk("statewake")(r) and r["ws"] and any(t["state"] == "proved" and t["transfer"] for t in r["txs"]),
            lambda r: r["ws"][0]["c"].append([t["id"] for t in r["txs"] if t["state"] == "proved" and t["transfer"]][0]))
    # dropped field / dropped record are meaningless for independent records; a truncated table is not:
    cpath = run_classify_driver(ctx, bindir, 200, 300, ctx.seed, "classify.ndjson")
    crecs = read_trace(cpath)
    ok, k, detail, eager = validate_classify(ctx, d, cpath)
    if not ok:
        raise lib.ToolError("selftest: fresh classification trace rejected at %d" % k)

    def ccorrupt(what, idx, mut, at=None):
        c2 = json.loads(json.dumps(crecs))
        mut(c2, idx)
        _expect_reject(ctx, d, c2, what, module="Trace_Classify", at=at)

    def find(pred):
        for i, r in enumerate(crecs):
            if r["a"] == "pt" and pred(r):
                return i
        raise lib.ToolError("selftest: no suitable table row")
    full_prep = find(lambda r: r["r"] == "P" and r["sts"] == 1 and r["vs"] and r["aog"] == 0)
    ccorrupt("full evidence of a preparation labelled Nonconforming", full_prep, lambda c, i: c[i].__setitem__("r", "N"), at=full_prep + 1)
    undecided = find(lambda r: r["r"] == "U" and r["src"] == 16 and r["dst"] == 0 and r["ob"] == 2 and r["exp"] == 1 and r["sts"] == 0)
    ccorrupt("decision without the send-to-self clause", undecided, lambda c, i: c[i].__setitem__("r", "P"), at=undecided + 1)
    decided = find(lambda r: r["r"] == "T" and r["sts"] == 0)
    ccorrupt("a decision that reverts to Unknown as evidence grows", decided + 0,
             lambda c, i: [c[j].__setitem__("r", "U") for j in (find(lambda r: r["r"] == "T" and r["sts"] == 1 and
                           all(r[f] == crecs[decided][f] for f in ("src", "dst", "ob", "val", "vs", "exp", "aog", "fee"))),)])
    ccorrupt("refutation without a negative observation", undecided, lambda c, i: c[i].__setitem__("r", "N"), at=undecided + 1)
    ccorrupt("table row dropped", 5000, lambda c, i: c.pop(i), at=5001)
    ccorrupt("code table: decode(encode) differs", 0, lambda c, i: c[0]["to"][2].__setitem__("back", "T"), at=1)
    ccorrupt("code table: unknown code decodes to a decision", 0, lambda c, i: c[0]["from"][-1].__setitem__("l", "N"), at=1)
    chain = next(i for i, r in enumerate(crecs) if r["a"] == "chain" and r["pts"][-1]["r"] in ("P", "T"))
    ccorrupt("chain: the last answer flips the decision", chain,
             lambda c, i: c[i]["pts"][-2].__setitem__("r", "N"), at=chain + 1)
    dpos = lambda pred: next(i for i, r in enumerate(crecs) if r["a"] == "dtx" and pred(r))
    i = dpos(lambda r: r["r"] == "P")
    ccorrupt("decrypted preparation with an incoming Orchard output still labelled", i,
             lambda c, i: c[i]["oouts"].append("in"), at=i + 1)
    i = dpos(lambda r: r["r"] == "T")
    ccorrupt("decrypted crossing with a Sapling output still labelled", i, lambda c, i: c[i].__setitem__("sout", 1), at=i + 1)
    ccorrupt("decrypted crossing with an ordinary expiry still labelled", i,
             lambda c, i: c[i].__setitem__("expiry", c[i]["expiry"] + 40), at=i + 1)
    i = dpos(lambda r: r["r"] == "U")
    ccorrupt("decrypted transaction refuted without evidence", i, lambda c, i: c[i].__setitem__("r", "N"), at=i + 1)
    lib.log("selftest ok: %d corruptions rejected" % _expect_reject.n)
