"""C08 — proposals spend only spendable funds, each once, and balance exactly (Wallet.tla + Locking.tla).

1. TLC explores Locking.tla (two owners proposing with lock requests under any locked-input policy,
   unlocking, clearing, the tip advancing): live proposals of different owners never share an input, a
   live proposal's inputs are unselectable under the default policy, no stealing.
2. The wallet driver of C01 is interleaved with real proposals (propose_transfer with the greedy selector and
   the standard change strategy; confirmation policies (1,1) (1,3) (3,10) (10,10); amounts relative to the
   balance; lock requests; Exclude / PreferUnlocked / PreferLocked policies), direct lock / unlock / clear
   calls.  Every event is validated by TLC against Trace_Wallet.tla: each note a proposal selects must be
   known, mined at or below the anchor, sufficiently confirmed, unexpired, unspent (ledger of C01), above
   the dust threshold, not locked by an owner the policy does not admit; no note twice; inputs = payments +
   change + fee in every step; the lock columns and get_locked_outputs equal the specification's lock
   state after every operation (all-or-nothing acquisition, owner-scoped unlock, clear, expiry).
   Kept proposals -- possibly stale by then -- are turned into stored pending transactions with
   create_proposed_transactions (default expiry, expiry at once, a little later, never): the transaction must
   spend exactly the proposal's inputs (nullifiers), pay outputs + the proposal's fee out of them (outputs found
   by trial decryption under the accounts' and the recipient's keys) and expire where asked; from then on its
   inputs are out of the ledger and ineligible for every later proposal until it expires, its change counts as
   pending; the environment later mines some of these transactions (or a conflicting spend of their inputs).
   Transparent coins as inputs (checks/c08_coins.py, Coins.tla / Trace_Coins.tla / MC_Shield.tla): propose_shielding must
   select exactly the eligible coins of the source addresses, coin-funded propose_transfer only eligible coins of
   the account, created shielding transactions spend exactly the proposal's coins; coin locks.
   Multi-step proposals, "in EVERY step" (checks/c08_multistep.py, MultiStep.tla / MC_MultiStep.tla / Trace_MultiStep.tla):
   propose_transfer to ZIP 320 TEX recipients answers with a two-step proposal (wallet funds -> ephemeral transparent output
   -> TEX recipient); every step of every such proposal must balance, refer correctly to the earlier step's output, select
   only eligible notes / coins (the same Eligible / EligibleCoin definitions), none twice across steps, and never pay a TEX
   recipient out of shielded notes; both created transactions are read back (the second spends exactly the ephemeral
   outpoint of the first and pays the requested TEX script and amount).
3. The proposal validators (Step::from_parts, Proposal::multi_step / single_step, the protobuf decode path) are
   bound directly (checks/c08_validators.py, spec/Wallet/ProposalValid.tla): TLC enumerates valid and invalid
   step lists with the set of violated rules; verdict and error class of the real validators must agree.
"""
import json
import os

from . import lib
from . import c01
from . import c08_validators
from . import c08_coins
from . import c08_multistep

AREA = "Wallet"


def drive(ctx, bindir, name, args, seed, binary="c08_driver"):
    path = ctx.path("trace_%s.ndjson" % name)
    lib.run_bin(os.path.join(bindir, binary), [path] + args, env_extra={"VERIF_SEED": str(seed)}, timeout=3400)
    return path


def stats(path, tot):
    sample = None
    with open(path) as f:
        for line in f:
            r = json.loads(line)
            a = r["a"]
            if a == "propose":
                tot["proposals"] = tot.get("proposals", 0) + 1
                tot["propose_" + r["res"]] = tot.get("propose_" + r["res"], 0) + 1
                if r["res"] == "ok":
                    n = sum(len(s["inputs"]) for s in r["p"]["steps"])
                    tot["inputs_judged"] = tot.get("inputs_judged", 0) + n
                    if r["lock"][0] >= 0:
                        tot["ok_with_lock"] = tot.get("ok_with_lock", 0) + 1
                    if r["admitted"]:
                        tot["ok_admitting_locked"] = tot.get("ok_admitting_locked", 0) + 1
                    if sample is None:
                        sample = {k: r[k] for k in ("a", "res", "amount", "trusted", "untrusted", "lock", "admitted", "p")}
            elif a == "create":
                tot["create_" + r["res"]] = tot.get("create_" + r["res"], 0) + 1
                for t in r["txs"]:
                    tot.setdefault("_created_now", set()).add((0, t["t"]))
                    if t["exp"] == -100:
                        tot["created_never_expiring"] = tot.get("created_never_expiring", 0) + 1
            elif a == "reset":
                tot["_created_now"] = set()
            elif a == "block":
                for t in r["txs"]:
                    if (0, t["t"]) in tot.get("_created_now", set()):
                        tot["created_mined"] = tot.get("created_mined", 0) + 1
            elif a in ("lock", "unlock", "clearlocks"):
                tot[a + "_" + r["res"]] = tot.get(a + "_" + r["res"], 0) + 1
            post = r.get("post") or {}
            if post.get("chk") and post.get("locks", {}).get("rows"):
                tot["states_with_locks"] = tot.get("states_with_locks", 0) + 1
    return sample


def validate(ctx, d, path, what):
    acc, n, detail, r = lib.tlc_validate(ctx, d, "Trace_Wallet", "Trace_Wallet.cfg", path, timeout=3000,
                                         env_extra=c01.trace_env(ledger=True, locks=True))
    if acc:
        ctx.traces += n
        return True
    with open(path) as f:
        lines = f.read().splitlines()
    start = max(i for i in range(n) if json.loads(lines[i])["a"] == "reset")
    ev = json.loads(lines[n - 1])
    # a rejected event that is not a proposal/lock operation is a ledger disagreement (C01's domain); it is
    # still a disagreement between the real wallet and Wallet.tla and is reported here as well
    lib.violation(ctx, {"property": "C08", "kind": "trace_rejected", "what": what, "first_unmatched_event": n,
                        "event": ev, "history": [json.loads(x) for x in lines[start:n]]},
                  "event %d (%s) of the recorded wallet history is not allowed by Trace_Wallet.tla: a proposal selects an "
                  "ineligible / duplicate note or does not balance, or the lock state disagrees: %s" % (n, ev["a"], detail[:1200]))
    return False


def run(ctx):
    bindir = lib.cargo_build("h_wallet", ["c08_driver"])
    d = lib.stage_specs(ctx, AREA)
    lib.sany(os.path.join(d, "Trace_Wallet.tla"))
    lib.sany(os.path.join(d, "Locking.tla"))
    cfg = "MC_Locking_gen.cfg"
    with open(os.path.join(d, cfg), "w") as f:
        f.write("SPECIFICATION Spec\nCONSTANTS\n  Notes = {1, 2, 3}\n  Owners = {0, 1}\n  MaxTip = %d\n  MaxFor = 2\n"
                "INVARIANT Inv\nCHECK_DEADLOCK FALSE\n" % (4 if ctx.quick() else 5))
    r = lib.tlc(ctx, d, "Locking", cfg, workers=8, timeout=3000)
    lib.require_coverage(r, ["Propose", "Unlock", "Clear", "Advance"])
    lib.account_tlc(ctx, r)

    plans = [("base", ["22", "90"]), ("ironwood", ["8", "90", "ironwood"])] if ctx.quick() else \
            [("base%d" % i, ["60", "110"]) for i in range(4)] + [("ironwood%d" % i, ["40", "110", "ironwood"]) for i in range(2)]
    tot = {}
    for i, (name, args) in enumerate(plans):
        path = drive(ctx, bindir, name, args, ctx.seed * 100 + i)
        s = stats(path, tot)
        if s:
            ctx.add_sample(s)
        if not validate(ctx, d, path, name):
            break
    # the same flows against the wallet crates built WITH transparent-inputs (never compiled by the baseline suite)
    if not ctx.violations:
        tbin = lib.cargo_build("h_wallet_t", ["c08_driver_t"])
        path = drive(ctx, tbin, "t_base", ["10", "90"] if ctx.quick() else ["40", "110"], ctx.seed * 100 + 50, binary="c08_driver_t")
        stats(path, tot)
        validate(ctx, d, path, "t_base")
    tot.pop("_created_now", None)
    if not ctx.violations and (tot.get("create_ok", 0) < 8 or tot.get("created_mined", 0) < 2):
        raise lib.ToolError("vacuity: too few stored pending transactions / none mined later: %s" % tot)
    if not ctx.violations and (tot.get("propose_ok", 0) < 25 or tot.get("ok_with_lock", 0) < 5 or tot.get("states_with_locks", 0) < 20
                               or tot.get("inputs_judged", 0) < 50):
        raise lib.ToolError("vacuity: too few successful proposals / locks in the trace: %s" % tot)
    ctx.extra["proposal_stats"] = tot
    # the validators every proposal passes through (Step::from_parts, Proposal::multi_step / single_step, the protobuf
    # decode path), bound directly: a correct selector would hide a weakened validator
    vstats = None
    if not ctx.violations:
        vstats = c08_validators.run_part(ctx)
    # transparent coins as proposal inputs (wallet crates with transparent-inputs): propose_shielding checked exactly,
    # coin-funded propose_transfer relationally, create_proposed_transactions, coin locks (Coins.tla / Trace_Coins.tla)
    if not ctx.violations:
        ctx.extra["coin_proposal_stats"] = c08_coins.run_part(ctx)
    # multi-step proposals (ZIP 320 pairs produced by the real selector): every step judged, both created transactions read back
    mstats = {}
    if not ctx.violations:
        mstats = c08_multistep.run_part(ctx)
    lib.mc_evidence(
        ctx,
        rule="seeded random wallet histories (as C01) interleaved with propose_transfer calls under 4 confirmation policies, "
             "8 amount classes relative to the balance, lock requests and 3 locked-input policies, and direct lock/unlock/clear "
             "calls, on the real SQLite wallet; distinct_nontrivial = notes selected by successful proposals, each judged "
             "eligible by the specification from the logged history (incl. the notes and coins selected by the steps of the "
             "multi-step part's proposals, see multistep_rule)",
        evaluations=tot.get("proposals", 0) + mstats.get("requests", 0),
        distinct_nontrivial=tot.get("inputs_judged", 0) + mstats.get("notes_selected", 0) + mstats.get("coins_selected", 0),
        extra={"multistep_rule": c08_multistep.RULE},
        assumptions=c08_multistep.ASSUMPTIONS + ["relational: which eligible notes are chosen and refusals (InsufficientFunds, ScanRequired) are not judged",
                     "confirmations are required to be at least the weaker of the policy's two counts",
                     "proposal validators (Step::from_parts / Proposal::multi_step / single_step / protobuf decode) are bound by "
                     "ProposalValid.tla: every TLC-enumerated case (valid and invalid step lists) is replayed on the real "
                     "validators and verdict + error class compared; fee = ZIP 317 of the step's shape is C07's",
                     "the proposal's anchor is only required to be at or below the tip (C06 decides roots and witnesses)"])


def replay(ctx, path):
    lib.cargo_build("h_wallet", ["c08_driver"])
    d = lib.stage_specs(ctx, AREA)
    with open(path) as f:
        rep = json.load(f)
    if rep.get("part") == "validators":
        return c08_validators.replay_part(ctx, rep)
    if rep.get("kind") == c08_coins.KIND:
        return c08_coins.replay_part(ctx, rep)
    if rep.get("kind") == c08_multistep.KIND:
        return c08_multistep.replay_part(ctx, rep)
    tp = ctx.path("replay_trace.ndjson")
    with open(tp, "w") as f:
        for e in rep["history"]:
            f.write(json.dumps(e) + "\n")
    if validate(ctx, d, tp, "replay"):
        lib.log("replay: recorded history is accepted by the specification")


def selftest(ctx):
    bindir = lib.cargo_build("h_wallet", ["c08_driver"])
    d = lib.stage_specs(ctx, AREA)
    path = drive(ctx, bindir, "self", ["8", "90"], 3)
    with open(path) as f:
        lines = f.read().splitlines()
    recs = [json.loads(x) for x in lines]
    oks = [i for i, r in enumerate(recs) if r["a"] == "propose" and r["res"] == "ok" and len(r["p"]["steps"][0]["inputs"]) >= 2]
    if not oks:
        raise lib.ToolError("selftest: no successful proposal with two inputs")
    idx = oks[0]
    env = c01.trace_env(ledger=True, locks=True)
    # (a) a duplicated input
    rec = json.loads(lines[idx])
    rec["p"]["steps"][0]["inputs"][1] = rec["p"]["steps"][0]["inputs"][0]
    for tag, mutated in (("duplicate input", rec),):
        bad = ctx.path("corrupt.ndjson")
        with open(bad, "w") as f:
            f.write("\n".join(lines[:idx] + [json.dumps(mutated)] + lines[idx + 1:]) + "\n")
        acc, n, _, _ = lib.tlc_validate(ctx, d, "Trace_Wallet", "Trace_Wallet.cfg", bad, env_extra=env)
        if acc or n != idx + 1:
            raise lib.ToolError("selftest: %s at event %d not rejected there (%s, %s)" % (tag, idx + 1, acc, n))
    # (b) fee off by one
    rec = json.loads(lines[idx])
    rec["p"]["steps"][0]["fee"] += 1
    bad = ctx.path("corrupt2.ndjson")
    with open(bad, "w") as f:
        f.write("\n".join(lines[:idx] + [json.dumps(rec)] + lines[idx + 1:]) + "\n")
    acc, n, _, _ = lib.tlc_validate(ctx, d, "Trace_Wallet", "Trace_Wallet.cfg", bad, env_extra=env)
    if acc or n != idx + 1:
        raise lib.ToolError("selftest: unbalanced step at event %d not rejected there" % (idx + 1))
    lib.log("selftest ok: duplicated input and unbalanced step rejected at their event")
    c08_validators.selftest_part(ctx)
    c08_coins.selftest_part(ctx)
    c08_multistep.selftest_part(ctx)
