"""C14 — built transactions contain what was requested and pay exactly the fee.

Specification: spec/Fees/Builder.tla (reuses Zip317.tla: ZIP 317 fee and the padding rules of the
bundle builders).  `BuildSpec(request)`: Err(unsupported) when the proposed version is invalid for
the branch or a pool is not active / not carried; else with fee = Fee(padded shape):
inputs - outputs < fee => InsufficientFunds(missing), > fee => ChangeRequired(excess), = fee => Ok
with bundle sizes = padded shape, real spends/outputs = requested, the rest zero-valued dummies.

1. TLC on the specification alone (MC_Builder): the theorems of Builder.tla on every request of an
   exhaustive finite domain (union of slices; ~2.1*10^4 requests).
2. spec -> code (R): TLC prints every request with concrete amounts and the verdict; c14_replay
   materialises each (real keys, notes in tiny real commitment trees, transparent P2PKH / P2SH
   multisig coins) and runs Builder::get_fee, build_for_pczt (+ Creator / into_effects), the full
   build with mock Sapling provers and real transparent signing, DeferredPcztBuilder, a seeded
   sample with real Orchard/Ironwood proofs; every emitted (partial) transaction is checked with
   independent paths (trial decryption under the recipients' IVKs, zcash_script interpreter on
   every transparent input, own value sums) and TransparentInputInfo::from_parts against the
   specification's acceptance table.
"""
import json
import os
import threading

from . import lib

AREA = "Fees"
THEOREMS = "ThOkPaysFee ThPaddingCovers ThTrichotomy ThNoInputs ThSupportIsStructural ThCountsIgnoreProposedVersion ThAmountsSane"
MIN_CASES = 15000
REQUIRED = ["pczt:ok", "pczt:insufficient", "pczt:change", "pczt:unsupported", "pczt:pczt_zip212", "build:ok", "build:insufficient",
            "build:change", "build:unsupported", "build:missing_key", "deferred:ok", "deferred:insufficient", "deferred:change",
            "deferred:refused_new", "add_refused:add_orchard_output", "add_refused:add_ironwood_output", "add_refused:add_orchard_spend",
            "add_refused:propose_before", "add_refused:propose_after", "build:real_proofs", "staged_signing"]


def write_cfg(path, emit, wide, theorems):
    with open(path, "w") as f:
        f.write("SPECIFICATION Spec\nCONSTANTS\n  Emit = %s\n  Wide = %s\n" % ("TRUE" if emit else "FALSE", "TRUE" if wide else "FALSE"))
        if theorems:
            f.write("INVARIANTS " + THEOREMS + "\n")
        f.write("CHECK_DEADLOCK FALSE\n")


def wrapper(d, base, name):
    with open(os.path.join(d, name + ".tla"), "w") as f:
        f.write("---- MODULE %s ----\nEXTENDS %s\n====\n" % (name, base))
    return name


def stage(ctx):
    d = lib.stage_specs(ctx, AREA)
    for m in ("Zip317", "Builder", "MC_Builder"):
        lib.sany(os.path.join(d, m + ".tla"))
    return d


def emit_cases(ctx, d, wide):
    """One CASE line per request of the domain (workers 1) + the coin validator table."""
    name = wrapper(d, "MC_Builder", "MC_Builder_emit")
    write_cfg(os.path.join(d, "Emit_Builder.cfg"), True, wide, False)
    r = lib.tlc(ctx, d, name, "Emit_Builder.cfg", workers=1, timeout=3000, coverage=False)
    cases = r.prints("CASE")
    table = r.prints("VTABLE")
    r.out = ""
    if len(cases) < MIN_CASES or r.distinct != 2 * len(cases) or r.depth != 2 or len(table) != 1:
        raise lib.ToolError("vacuity: MC_Builder emitted %d cases, %d states, %d tables" % (len(cases), r.distinct, len(table)))
    return r, cases, table[0]


def theorems(ctx, d, wide):
    name = wrapper(d, "MC_Builder", "MC_Builder_th")
    write_cfg(os.path.join(d, "Th_Builder.cfg"), False, wide, True)
    r = lib.tlc(ctx, d, name, "Th_Builder.cfg", workers=4, timeout=3000, coverage=False)
    if r.depth != 2 or r.distinct < 2 * MIN_CASES:
        raise lib.ToolError("vacuity: MC_Builder explored %d states, depth %d" % (r.distinct, r.depth))
    return r


def write_ndjson(path, recs):
    with open(path, "w") as f:
        for c in recs:
            f.write(json.dumps(c) + "\n")


def execute(ctx, bindir, cases, table, real, timeout=3000):
    cp, tp = ctx.path("cases.ndjson"), ctx.path("vtable.ndjson")
    write_ndjson(cp, cases)
    write_ndjson(tp, [table])
    p = lib.run_bin(os.path.join(bindir, "c14_replay"), ["run", cp, str(real), tp],
                    env_extra={"VERIF_SEED": str(ctx.seed), "C14_THREADS": os.environ.get("C14_THREADS", "12")}, timeout=timeout)
    res = json.loads(p.stdout.strip().splitlines()[-1])
    if res["cases"] != len(cases):
        raise lib.ToolError("replay consumed %d of %d cases" % (res["cases"], len(cases)))
    return res


def describe(q):
    return ("regime %s height#%s proposed %s (%s) rule %s; transparent in %s=%s out %s=%s; sapling in %s out %s; orchard in %s out %s "
            "change %s (padding %s); ironwood in %s out %s (padding %s); anchors %s; keys %s"
            % (q["regime"], q["hsel"], q["pv"], q["pvWhen"], json.dumps(q["rule"]), q["tin"], q["tinV"], q["tout"], q["toutV"],
               q["sInV"], q["sOutV"], q["oInV"], q["oOutV"], q["oChgV"], q["opad"], q["iInV"], q["iOutV"], q["ipad"],
               json.dumps(q["anch"]), q["keys"]))


def judge(ctx, res):
    # up to four reports, of different kinds of disagreement where there are several
    chosen, kinds = [], set()
    for m in res["mismatches"]:
        k = m.get("key", m["kind"])
        if k not in kinds:
            kinds.add(k)
            chosen.append(m)
    chosen = (chosen + [m for m in res["mismatches"] if m not in chosen])[:4]
    if len(kinds) > 1:
        lib.log("kinds of disagreement in this run: %s" % json.dumps(sorted(kinds)))
    for m in chosen:
        if m["kind"] == "validator":
            lib.violation(ctx, {"property": "C14", "kind": "validator", "coin": m["coin"], "info": m["info"], "seed": ctx.seed},
                          "%s: coin %s with spend information %s: the specification says accept=%s, the code: %s"
                          % (m["api"], m["coin"], m["info"], m["expected_accept"], m["got"]))
        else:
            x = m["case"]["x"]
            lib.violation(ctx, {"property": "C14", "kind": "case", "case": m["case"], "idx": m["idx"], "seed": ctx.seed},
                          "the builder disagrees with BuildSpec: %s | request: %s | specification: %s(%s) fee %s version %s shape %s balances %s"
                          % ("; ".join(m["errors"][:4]), describe(m["case"]["q"]), x["k"], x["amt"], x["fee"], x["ver"],
                             json.dumps(x["shape"]), json.dumps(x["vb"])))


def run(ctx):
    wide = not ctx.quick()
    results, errors = {}, []

    def job(name, fn):
        def body():
            try:
                results[name] = fn()
            except BaseException as e:  # noqa: BLE001 - re-raised below
                errors.append(e)
        t = threading.Thread(target=body)
        t.start()
        return t

    d = stage(ctx)
    t_build = job("build", lambda: lib.cargo_build("h_tx", ["c14_replay"]))
    t_emit = job("emit", lambda: emit_cases(ctx, d, wide))
    t_th = job("th", lambda: theorems(ctx, d, wide))

    def check_errors():
        if errors:
            tool = [e for e in errors if isinstance(e, lib.ToolError)]
            raise (tool[0] if tool else errors[0])
    t_build.join()
    t_emit.join()
    check_errors()
    bindir = results["build"]
    r_emit, cases, table = results["emit"]
    lib.account_tlc(ctx, r_emit)

    # the replay runs while TLC is still busy with the theorems
    real = 4 if ctx.quick() else 80
    res = execute(ctx, bindir, cases, table, real, timeout=3000 if ctx.quick() else 12000)
    t_th.join()
    check_errors()
    lib.account_tlc(ctx, results["th"])
    judge(ctx, res)
    st = res["stats"]
    missing = [k for k in REQUIRED if st.get(k, 0) == 0]
    if missing and not ctx.violations:
        raise lib.ToolError("vacuity: the replay never reached %s" % ", ".join(missing))
    if res["validator_calls"] != 2 * 36:
        raise lib.ToolError("vacuity: %d validator calls" % res["validator_calls"])

    ctx.traces = len(cases) + res["validator_calls"]
    by = {}
    for c in cases:
        by.setdefault((c["q"]["slice"], c["x"]["k"]), c)
    for key in (("shape", "ok"), ("padding", "ok"), ("version", "unsupported"), ("rule", "change"), ("keys", "ok"), ("many", "insufficient")):
        if key in by:
            ctx.add_sample({"request": describe(by[key]["q"]), "spec": {k: by[key]["x"][k] for k in ("k", "amt", "fee", "ver", "shape", "vb")}})
    ctx.extra["replay"] = {k: v for k, v in st.items() if not k.startswith("us:")}
    ctx.extra["thread_seconds_by_phase"] = {k[3:]: round(v / 1e6, 1) for k, v in st.items() if k.startswith("us:")}
    lib.mc_evidence(
        ctx,
        rule="R: every request of MC_Builder's exhaustive domain (slices: shapes with <= 2 pools x 3 regimes x balance offsets; "
             "padding configurations; proposed versions before/after the adds; fee rules; anchor configurations; many pools; "
             "signing sets) is printed by TLC with the specification's verdict and executed on get_fee, build_for_pczt, the full "
             "build (mock Sapling provers; real Orchard proofs for a seeded sample) and DeferredPcztBuilder; "
             "distinct_nontrivial = distinct (path, regime, version, padded shape, outcome, padding/keys) signatures executed",
        evaluations=ctx.traces, distinct_nontrivial=res["distinct"],
        extra={"exhaustive": True, "requests": len(cases), "pczt_built": st.get("pczt:ok", 0), "transactions_built": st.get("build:ok", 0),
               "real_proof_builds": st.get("build:real_proofs", 0), "deferred_built": st.get("deferred:ok", 0)},
        assumptions=[
            "amounts below 10^8 zatoshi (TLC integers); MAX_MONEY-scale arithmetic is C09's",
            "padding rules of sapling-crypto 0.7.0 / orchard 0.15.3, the size charged for a not yet signed P2SH multisig input and the "
            "150-byte standard P2PKH input are transcribed as the specification's environment",
            "refusals are compared by class and amount; when the specification justifies several refusals of one request (unsupported "
            "and unbalanced, ...) any of them is accepted",
            "the signature hash used by the script interpreter's callback is the library's signature_hash (bound to ZIP 244/243 by C04)",
            "Sapling proofs are mocked in the full build; zero-knowledge proof soundness is not decided",
            "a bundle required by BundlePadding.bundle_required counts as requested: it must be emitted (dummy actions) and the version "
            "must carry it, for Builder and DeferredPcztBuilder alike",
        ])


# ------------------------------------------------------------------------------------------------

def replay(ctx, path):
    bindir = lib.cargo_build("h_tx", ["c14_replay"])
    with open(path) as f:
        rep = json.load(f)
    ctx.seed = rep.get("seed", ctx.seed)
    d = stage(ctx)
    write_cfg(os.path.join(d, "Emit_Builder.cfg"), True, False, False)
    if rep.get("kind") == "validator":
        _, cases, table = emit_cases(ctx, d, False)
        res = execute(ctx, bindir, cases[:1], table, 0)
    else:
        # the case keeps its index: the harness derives its randomness from (seed, index)
        res = execute_at(ctx, bindir, rep["case"], rep["idx"])
    judge(ctx, res)
    if not res["mismatches"]:
        lib.log("replay: the request now agrees with the specification")


def execute_at(ctx, bindir, case, idx):
    cp = ctx.path("replay_case.ndjson")
    write_ndjson(cp, [case])
    p = lib.run_bin(os.path.join(bindir, "c14_replay"), ["one", cp, str(idx)], env_extra={"VERIF_SEED": str(ctx.seed)}, timeout=1200)
    return json.loads(p.stdout.strip().splitlines()[-1])


def selftest(ctx):
    """Binding demonstration (R): perturbed expectations must be reported by the harness."""
    bindir = lib.cargo_build("h_tx", ["c14_replay"])
    d = stage(ctx)
    _, cases, table = emit_cases(ctx, d, False)

    def find(pred):
        for i, c in enumerate(cases):
            if pred(c):
                return i
        raise lib.ToolError("selftest: no case to perturb")

    def cp(c):
        return json.loads(json.dumps(c))
    perturbed = []
    i = find(lambda c: c["x"]["k"] == "ok" and c["x"]["shape"]["ao"] > 0 and c["q"]["slice"] == "shape")
    c = cp(cases[i]); c["x"]["fee"] += 5000
    perturbed.append(("expected fee + one marginal fee", i, c))
    c = cp(cases[i]); c["x"]["shape"]["ao"] += 1
    perturbed.append(("expected Orchard actions + 1", i, c))
    i = find(lambda c: c["x"]["k"] == "ok" and c["x"]["shape"]["so"] > 0 and len(c["q"]["sOutV"]) > 0 and c["x"]["shape"]["ai"] + c["x"]["shape"]["ao"] == 0)
    c = cp(cases[i]); c["x"]["vb"]["s"] += 1; c["x"]["vb"]["t"] -= 1
    perturbed.append(("one zatoshi moved between the expected pool balances", i, c))
    c = cp(cases[i]); c["x"]["k"] = "unsupported"
    perturbed.append(("Ok expected as unsupported", i, c))
    i = find(lambda c: c["x"]["k"] == "insufficient" and c["x"]["amt"] == 1)
    c = cp(cases[i]); c["x"]["amt"] = 2; c["x"]["altAmt"] = 2
    perturbed.append(("InsufficientFunds amount + 1", i, c))
    i = find(lambda c: c["x"]["k"] == "change")
    c = cp(cases[i]); c["x"]["k"] = "insufficient"; c["x"]["altK"] = "insufficient"
    perturbed.append(("ChangeRequired expected as InsufficientFunds", i, c))
    i = find(lambda c: c["x"]["k"] == "unsupported" and c["x"]["altK"] == "ok" and c["x"]["addable"] and c["q"]["slice"] == "version")
    c = cp(cases[i]); c["x"]["k"] = "ok"
    perturbed.append(("unsupported version expected as Ok", i, c))
    i = find(lambda c: c["x"]["k"] == "ok" and not c["x"]["signOk"])
    c = cp(cases[i]); c["x"]["signOk"] = True
    perturbed.append(("missing signing key expected to build", i, c))
    for what, i, c in perturbed:
        res = execute_at(ctx, bindir, c, i)
        if not res["mismatches"]:
            raise lib.ToolError("selftest: perturbation not reported (%s)" % what)
        lib.log("selftest ok: %s -> %s" % (what, res["mismatches"][0]["errors"][0][:160]))
        ok = execute_at(ctx, bindir, cases[i], i)
        if ok["mismatches"]:
            raise lib.ToolError("selftest: the unperturbed case %d is reported: %s" % (i, ok["mismatches"][0]["errors"][:2]))
    t = cp(table); t["pkhA"]["pkhB"] = True
    res = execute(ctx, bindir, cases[:1], t, 0)
    if not any(m["kind"] == "validator" for m in res["mismatches"]):
        raise lib.ToolError("selftest: perturbed validator table not reported")
    lib.log("selftest ok: perturbed coin-validator table reported")
