"""C07 — fee and change computation conserves value and pays the ZIP 317 fee.

Specification: spec/Fees/Zip317.tla (ZIP 317 formula + padding rules of the bundle builders as
environment), spec/Fees/ChangeStrategy.tla (postconditions of every answer of a change strategy,
over a number algebra), DecNatFees.tla (amounts up to MAX_MONEY as decimal digit sequences).

1. TLC on the specification alone: DecNatFees against native arithmetic; theorems about Fee
   (MC_Zip317), about padding and the fee of padded shapes (MC_Padding); ChangeStrategy instantiated
   with native integers on a small domain (MC_ChangeStrategy: satisfiable, sensitive, promises).
2. spec -> code (R): every case of MC_Zip317's domain is printed by TLC with the fee the
   specification computes and executed on `zip317::FeeRule::{standard, non_standard}` and
   `StandardFeeRule::Zip317`.
3. code -> spec (V): a seeded driver calls `fee_required` and `ChangeStrategy::compute_balance`
   (single- and multi-output strategies) on random, boundary-tuned and swept requests, including
   MAX_MONEY-scale amounts; TLC validates every logged record against the postconditions.
4. the same driver source built a second time against the wallet crates WITH `transparent-inputs`
   (package h_wallet_t, binary c07_driver_t): ZIP 320 steps (ephemeral input / ephemeral output), the opt-in
   transparent change policy (transparent change, dust and zero change at the thresholds) and mixes with
   shielded value; every record is validated by the same Trace_ChangeStrategy.
"""
import json
import os
import threading

from . import lib

AREA = "Fees"
TRACE_PARTS = 6
TRACE_PARTS_T = 3
KNOWN_ORCHARD = "C07-orchard-outputs-after-nu63"


def known_env():
    """The trace specification excuses the class of known finding C07-orchard-outputs-after-nu63 only while
    known_findings.json lists it as open."""
    is_open = any(f.get("property") == "C07" and f.get("id") == KNOWN_ORCHARD and f.get("status") == "open"
                  for f in lib.load_known_findings())
    return {"C07_KNOWN_ORCHARD_OUTPUTS": "1" if is_open else "0"}


def in_known_orchard_class(rec):
    """A returned balance after NU6.3 for a request with Orchard output value that makes the Orchard pool gain."""
    if rec["a"] != "bal" or rec["o"]["k"] != "balance":
        return False
    q, o = rec["q"], rec["o"]
    if not (q["nu63H"] >= 0 and q["targetH"] >= q["nu63H"]):
        return False
    o_in, o_out = sum(val(v) for v in q["oin"]), sum(val(v) for v in q["oout"])
    o_chg = sum(val(c["v"]) for c in o["change"] if c["pool"] == "orchard" and not c["eph"])
    return o_out > 0 and o_out + o_chg > o_in


# ------------------------------------------------------------------------------------------------
# helpers

def val(d):
    return sum(x * 10 ** i for i, x in enumerate(d))


def dig(v):
    r = []
    while v > 0:
        r.append(v % 10)
        v //= 10
    return r


AMOUNT_KEYS = {"fee", "available", "required", "v", "thr", "ephV", "minSplit", "sumIn", "sumOut", "finalShapeFee",
               "threshold"}
AMOUNT_LIST_KEYS = {"tinV", "toutV", "sin", "sout", "oin", "oout", "iin", "iout"}


def pretty(x, key=None):
    """Record with digit arrays rendered as integers (for summaries and samples only)."""
    if isinstance(x, list):
        if key in AMOUNT_KEYS:
            return val(x)
        if key in AMOUNT_LIST_KEYS:
            return [val(y) for y in x]
        return [pretty(y) for y in x]
    if isinstance(x, dict):
        if key == "need":
            return {k: val(v) for k, v in x.items()}
        return {k: pretty(v, k) for k, v in x.items()}
    return x


def wrapper(d, base, name):
    """A module `name` that EXTENDS `base`: lets several TLC runs of one spec go on concurrently
    (lib.tlc derives its scratch directory from the module name)."""
    with open(os.path.join(d, name + ".tla"), "w") as f:
        f.write("---- MODULE %s ----\nEXTENDS %s\n====\n" % (name, base))
    return name


class Pool:
    """Runs jobs on threads while keeping the number of TLC workers in use at or below `tokens`."""

    def __init__(self, tokens=8):
        self.tokens = tokens
        self.cv = threading.Condition()
        self.threads = []
        self.errors = []
        self.results = {}

    def submit(self, name, cost, fn):
        def body():
            with self.cv:
                while self.tokens < cost:
                    self.cv.wait()
                self.tokens -= cost
            try:
                self.results[name] = fn()
            except BaseException as e:  # noqa: BLE001 - re-raised in join()
                self.errors.append(e)
            finally:
                with self.cv:
                    self.tokens += cost
                    self.cv.notify_all()
        t = threading.Thread(target=body)
        t.start()
        self.threads.append(t)

    def join(self):
        for t in self.threads:
            t.join()
        if self.errors:
            tool = [e for e in self.errors if isinstance(e, lib.ToolError)]
            raise (tool[0] if tool else self.errors[0])
        return self.results


def write_cfg(path, lines):
    with open(path, "w") as f:
        f.write("\n".join(lines) + "\n")


def stage(ctx):
    d = lib.stage_specs(ctx, AREA)
    for m in ("DecNatFees", "Zip317", "ChangeStrategy", "Trace_ChangeStrategy", "MC_Zip317", "MC_Padding",
              "MC_ChangeStrategy", "MC_DecNatFees"):
        lib.sany(os.path.join(d, m + ".tla"))
    return d


# ------------------------------------------------------------------------------------------------
# model checking of the specification alone

def mc_jobs(ctx, d, pool):
    def decnat():
        r = lib.tlc(ctx, d, "MC_DecNatFees", "MC_DecNatFees.cfg", workers=1, timeout=600, coverage=False)
        return [r]

    def padding():
        # -coverage costs a factor of 3-5 here; the vacuity guard is the exact size of the domain instead
        r = lib.tlc(ctx, d, "MC_Padding", "MC_Padding.cfg", workers=3, timeout=1500, coverage=False)
        if r.distinct != 48 + 48 * 729 or r.depth != 2:
            raise lib.ToolError("vacuity: MC_Padding explored %d states, depth %d" % (r.distinct, r.depth))
        return [r]

    pool.submit("decnat", 1, decnat)
    pool.submit("padding", 3, padding)
    slices = 64 if ctx.quick() else 4
    chosen = [(ctx.seed * 2 + j) % slices for j in range(2)] if ctx.quick() else list(range(slices))
    for s in chosen:
        name = wrapper(d, "MC_ChangeStrategy", "MC_ChangeStrategy_s%d" % s)
        cfg = name + ".cfg"
        write_cfg(os.path.join(d, cfg), ["SPECIFICATION Spec", "CONSTANTS MaxIn = 220", "  Slices = %d" % slices,
                                         "  Slice = %d" % s,
                                         "INVARIANTS Satisfiable Sensitive Promises AlgorithmMeetsPostconditions LiteralTurnstile",
                                         "CHECK_DEADLOCK FALSE"])

        def job(name=name, cfg=cfg):
            r = lib.tlc(ctx, d, name, cfg, workers=2, timeout=3000, coverage=False)
            # 576 policy/pattern combinations, each completed in ~3 200 ways, 1/slices of them sampled
            if r.depth != 3 or r.distinct < 577 + 576 * 2000 // slices:
                raise lib.ToolError("vacuity: %s explored %d states, depth %d" % (name, r.distinct, r.depth))
            return [r]
        pool.submit(name, 2, job)


def fee_cases(ctx, d):
    """MC_Zip317 with Emit: theorems + one printed case per element of the domain (workers 1)."""
    write_cfg(os.path.join(d, "Emit_Zip317.cfg"), ["SPECIFICATION Spec", "CONSTANT Emit = TRUE",
                                                   "INVARIANTS FeeFloor FeeMonotone MaxNotSum CeilLaw",
                                                   "CHECK_DEADLOCK FALSE"])
    r = lib.tlc(ctx, d, "MC_Zip317", "Emit_Zip317.cfg", workers=1, timeout=1500, coverage=False)
    cases = r.prints("CASE")
    if len(cases) != 3 * 7 * 7 * 4 ** 4 or r.distinct != 2 * len(cases):
        raise lib.ToolError("vacuity: MC_Zip317 emitted %d cases, %d states" % (len(cases), r.distinct))
    path = ctx.path("fee_cases.ndjson")
    with open(path, "w") as f:
        for c in cases:
            f.write(json.dumps(c) + "\n")
    r.out = ""   # 37k printed lines are not needed any more
    return r, path, cases


def fee_replay(ctx, bindir, path):
    p = lib.run_bin(os.path.join(bindir, "c07_driver"), ["fee-replay", path], timeout=900)
    return json.loads(p.stdout.strip().splitlines()[-1])


def judge_fee(ctx, res):
    for m in res["mismatches"][:3]:
        lib.violation(ctx, {"property": "C07", "kind": "fee_case", "case": m["case"]},
                      "%s: rule %s, counts %s (tin %s, tout %s): specification fee %s, code returned %s"
                      % (m["rule_impl"], m["case"]["rule"], m["case"]["c"], m["tin"], m["tout"], m["case"]["fee"], m["got"]))


# ------------------------------------------------------------------------------------------------
# trace validation

def gen_trace(ctx, bindir, path, n, sweep, transparent=False):
    p = lib.run_bin(os.path.join(bindir, "c07_driver_t" if transparent else "c07_driver"),
                    ["trace-t" if transparent else "trace", path, str(n), str(sweep)],
                    env_extra={"VERIF_SEED": str(ctx.seed)}, timeout=1800)
    return json.loads(p.stdout.strip().splitlines()[-1])


def build(ctx):
    """The driver source is built twice: baseline feature set (h_tx) and wallet crates with transparent-inputs
    (h_wallet_t). Both land in the same directory."""
    bindir = lib.cargo_build("h_tx", ["c07_driver"])
    lib.cargo_build("h_wallet_t", ["c07_driver_t"])
    return bindir


def read_trace(path):
    with open(path) as f:
        return [json.loads(l) for l in f if l.strip()]


def write_trace(path, recs):
    with open(path, "w") as f:
        for r in recs:
            f.write(json.dumps(r) + "\n")


def validate_part(ctx, d, module, recs, path, max_viol=2, env=None):
    """Validates recs; after a rejected record validation resumes behind it. Returns
    (accepted_count, [(record, why)], [TlcResult])."""
    rejected, results, accepted, start = [], [], 0, 0
    while start < len(recs):
        write_trace(path, recs[start:])
        ok, n, detail, r = lib.tlc_validate(ctx, d, module, "Trace_ChangeStrategy.cfg", path, timeout=2400,
                                            env_extra=env if env is not None else known_env())
        why = r.prints("WHY")
        r.out = ""
        results.append(r)
        if ok:
            if n != len(recs) - start:
                raise lib.ToolError("trace validation consumed %d of %d records" % (n, len(recs) - start))
            accepted += n
            break
        if n < 1 or n > len(recs) - start:
            raise lib.ToolError("trace validation: bad rejection index %s (%s)" % (n, detail[:300]))
        accepted += n - 1
        rejected.append((recs[start + n - 1], why[-1] if why else None))
        if len(rejected) >= max_viol:
            break
        start += n
    return accepted, rejected, results


def summarize(rec, why):
    if rec["a"] != "bal":
        return "fee_required disagrees with ZIP 317: %s" % json.dumps(rec)[:900]
    p = pretty(rec)
    q, o = p["q"], p["o"]
    s = ("compute_balance answer not allowed by the postconditions: outcome %s; request: rule %s strat %s target %s "
         "minSplit %s notes %s dust %s/%s memo %s eph %s/%s targetH %s nu63H %s anchor %s/%s ov3 %s sapType %s "
         "tin %s/%s tout %s/%s sin %s sout %s oin %s oout %s iin %s iout %s"
         % (json.dumps({k: o[k] for k in o if k in ("k", "fee") or (k in ("available", "required") and o["k"] == "insufficient")
                        or (k not in ("available", "required", "hasDummy") and o[k] != [] and o[k] != "")}), q["rule"], q["strat"], q["target"],
            q["minSplit"], q["notes"], q["act"], q["thr"] if q["hasThr"] else "default", q["memo"], q["ephK"], q["ephV"],
            q["targetH"], q["nu63H"], q["anchorH"], q["interval"], q["ov3"], q["sapType"], q["tinV"], q["tinS"],
            q["toutV"], q["toutS"], q["sin"], q["sout"], q["oin"], q["oout"], q["iin"], q["iout"]))
    if why:
        s += " | failing clauses: %s" % json.dumps(pretty(why))
    return s


def report_rejections(ctx, rejected):
    for rec, why in rejected:
        lib.violation(ctx, {"property": "C07", "kind": "trace_record", "record": rec, "why": why}, summarize(rec, why))


def trace_stats(recs):
    st = {}

    def inc(k):
        st[k] = st.get(k, 0) + 1
    sigs = set()
    for r in recs:
        if r["a"] != "bal":
            inc(r["a"] + ":" + r["res"].split(" ")[0])
            continue
        q, o = r["q"], r["o"]
        inc("out:" + o["k"])
        big = any(len(v) > 9 for k in ("tinV", "toutV", "sin", "sout", "oin", "oout", "iin", "iout") for v in q[k])
        if big:
            inc("max_money_scale")
        nu63 = q["nu63H"] >= 0 and q["targetH"] >= q["nu63H"]
        if o["k"] == "balance":
            ch = [c for c in o["change"] if not c["eph"]]
            if in_known_orchard_class(r):
                inc("known:orchard_outputs_after_nu63_pool_gains")
            pools = sorted(set(c["pool"] for c in ch))
            inc("balance:change_notes=%d" % min(len(ch), 3))
            for p in pools:
                inc("balance:change_in_" + p + ("_post_nu63" if nu63 else "_pre_nu63"))
            if q["act"] == "addfee" and (not ch or (len(ch) == 1 and ch[0]["v"] == [])):
                inc("balance:addfee_no_value_change")
            if not ch and q["act"] != "addfee":
                inc("balance:changeless")
            if len(q["iout"]) == 1 and not q["iin"] and o["dummy"][2] == 0 and not any(c["pool"] == "ironwood" for c in ch):
                inc("balance:ironwood_unpadded")
            if q["ephK"] != "none":
                inc("balance:ephemeral_" + q["ephK"])
            if any(c["memo"] for c in ch):
                inc("balance:memo")
            sigs.add(("b", len(ch), tuple(pools), q["act"], nu63, q["ov3"], tuple(o["dummy"]), q["strat"], big,
                      tuple(min(len(q[k]), 2) for k in ("tinV", "toutV", "sin", "sout", "oin", "oout", "iin", "iout"))))
        else:
            sigs.add((o["k"], o["e"] if o["k"] == "strategy" else "", q["act"], nu63, q["strat"], big,
                      tuple(min(len(q[k]), 2) for k in ("tinV", "toutV", "sin", "sout", "oin", "oout", "iin", "iout"))))
    return st, len(sigs)


def ceil_div(a, b):
    return (a + b - 1) // b


def transparent_only_fee(q, extra_out_bytes):
    """ZIP 317 fee of a request without any shielded input or output (coverage statistics only, never a verdict)."""
    r = q["rule"]
    tin = sum(max(x, 0) for x in q["tinS"]) + (150 if q["ephK"] == "in" else 0)
    tout = sum(q["toutS"]) + (34 if q["ephK"] == "out" else 0) + extra_out_bytes
    return r["m"] * max(r["g"], max(ceil_div(tin, r["pin"]), ceil_div(tout, r["pout"])))


SHIELDED_KEYS = ("sin", "sout", "oin", "oout", "iin", "iout")


def trace_stats_t(recs):
    """Coverage of the `transparent-inputs` configuration (vacuity guards of the second trace)."""
    st = {}

    def inc(k):
        st[k] = st.get(k, 0) + 1
    sigs = set()
    for r in recs:
        q, o = r["q"], r["o"]
        if not q["tfeat"]:
            raise lib.ToolError("c07_driver_t logged a record without tfeat: not built with the transparent feature")
        inc("out:" + o["k"])
        sh_count = sum(len(q[k]) for k in SHIELDED_KEYS)
        sh_value = sum(val(v) for k in SHIELDED_KEYS for v in q[k])
        eff_memo = q["memo"] and q["ephK"] != "in"
        may_t = q["tpolicy"] == "allowed" and sh_value == 0 and not eff_memo
        if may_t and sh_count == 0 and all(x >= 0 for x in q["tinS"]):
            # the point at which the transparent change would be zero-valued (a property of the request, whatever the answer)
            tot_in = sum(val(v) for v in q["tinV"]) + (val(q["ephV"]) if q["ephK"] == "in" else 0)
            tot_out = sum(val(v) for v in q["toutV"]) + (val(q["ephV"]) if q["ephK"] == "out" else 0)
            f0, f1 = transparent_only_fee(q, 0), transparent_only_fee(q, 34)
            if f1 > f0 and tot_in == tot_out + f1:
                inc("request:transparent_change_would_be_zero")
        if o["k"] == "balance":
            ch = [c for c in o["change"] if not c["eph"]]
            listed = [c for c in o["change"] if c["eph"]]
            tch = [c for c in ch if c["pool"] == "transparent"]
            if q["ephK"] != "none":
                inc("balance:ephemeral_" + q["ephK"])
            if listed:
                inc("balance:ephemeral_output_listed")
            if q["ephK"] == "in" and not q["tinV"] and not sh_count:
                inc("balance:zip320_second_step")
            if q["ephK"] == "out" and sh_count and len(q["oin"]) == 1 and len(q["iout"]) == 1 and not q["iin"] \
                    and q["anchorH"] % q["interval"] == 0 and o["dummy"][2] == 1:
                inc("balance:crossing_shape_with_ephemeral_output_padded")
            if tch:
                inc("balance:transparent_change")
                thr = val(q["thr"]) if q["hasThr"] else q["rule"]["m"]
                if val(tch[0]["v"]) < thr:
                    inc("balance:transparent_change_dust_kept")
                if val(tch[0]["v"]) == thr:
                    inc("balance:transparent_change_at_threshold")
                if q["strat"] == "multi" and q["target"] - max(q["notes"], 0) > 1:
                    inc("balance:transparent_change_not_split")
            if q["tpolicy"] == "allowed" and ch and not tch:
                inc("balance:allowed_but_shielded_change")
                if sh_value > 0:
                    inc("balance:allowed_but_shielded_value")
                if sh_value == 0 and eff_memo:
                    inc("balance:allowed_but_memo")
            if may_t and not ch and sh_count == 0:
                fee = val(o["fee"])
                f0, f1 = transparent_only_fee(q, 0), transparent_only_fee(q, 34)
                if fee == f1 and f1 > f0:
                    inc("balance:zero_transparent_change_omitted")
                elif fee == f0:
                    inc("balance:transparent_exact_no_change")
                elif fee > f1 and q["act"] == "addfee":
                    inc("balance:transparent_dust_folded")
            sigs.add(("b", len(ch), tuple(sorted(set(c["pool"] for c in ch))), bool(listed), q["ephK"], q["tpolicy"],
                      q["act"], q["strat"], tuple(o["dummy"]),
                      tuple(min(len(q[k]), 2) for k in ("tinV", "toutV") + SHIELDED_KEYS)))
        else:
            if o["k"] == "insufficient":
                if q["ephK"] != "none":
                    inc("insufficient:ephemeral_" + q["ephK"])
                if may_t:
                    inc("insufficient:transparent_change_allowed")
            sigs.add((o["k"], o["e"] if o["k"] == "strategy" else "", q["ephK"], q["tpolicy"], q["act"], q["strat"],
                      tuple(min(len(q[k]), 2) for k in ("tinV", "toutV") + SHIELDED_KEYS)))
    return st, len(sigs)


# minimum counts in the trace of the `transparent-inputs` build (quick, thorough)
REQUIRED_COVERAGE_T = {
    "out:balance": (3000, 20000), "out:insufficient": (1500, 10000), "out:dust": (100, 1000),
    "balance:ephemeral_in": (500, 3000), "balance:ephemeral_out": (1000, 5000),
    "balance:ephemeral_output_listed": (1000, 5000), "balance:zip320_second_step": (300, 2000),
    "balance:crossing_shape_with_ephemeral_output_padded": (20, 100),
    "balance:transparent_change": (500, 3000), "balance:transparent_change_dust_kept": (20, 100),
    "balance:transparent_change_at_threshold": (10, 50), "balance:transparent_change_not_split": (20, 100),
    "balance:allowed_but_shielded_value": (200, 1000), "balance:allowed_but_memo": (5, 30),
    "request:transparent_change_would_be_zero": (10, 50), "balance:transparent_exact_no_change": (10, 50),
    "balance:transparent_dust_folded": (10, 50),
    "insufficient:ephemeral_in": (200, 1000), "insufficient:ephemeral_out": (300, 2000),
    "insufficient:transparent_change_allowed": (300, 2000),
}


REQUIRED_COVERAGE = [
    "out:balance", "out:insufficient", "out:dust", "out:strategy", "out:bundle", "max_money_scale",
    "balance:change_notes=1", "balance:change_notes=2", "balance:change_notes=3", "balance:addfee_no_value_change",
    "balance:changeless", "balance:ironwood_unpadded", "balance:change_in_orchard_post_nu63",
    "balance:change_in_ironwood_post_nu63", "balance:change_in_orchard_pre_nu63", "balance:change_in_sapling_pre_nu63",
    "balance:ephemeral_in", "balance:ephemeral_out", "balance:memo", "fee:ok", "feebig:ok", "feebig:overflow",
]


def run(ctx):
    bindir = build(ctx)
    d = stage(ctx)
    pool = Pool(8)

    # (1) the specification alone
    mc_jobs(ctx, d, pool)
    pool.submit("fee_cases", 1, lambda: fee_cases(ctx, d))

    # (3) trace of the real code (generated now, validated while the model checking runs)
    tpath = ctx.path("trace.ndjson")
    n_random = 20000 if ctx.quick() else 200000
    info = gen_trace(ctx, bindir, tpath, n_random, 1 if ctx.quick() else 2)
    recs = read_trace(tpath)
    if len(recs) != info["records"]:
        raise lib.ToolError("driver reported %d records, trace has %d" % (info["records"], len(recs)))
    stats, sig_count = trace_stats(recs)
    # (vacuity is judged after the validation: a rejected record is the stronger verdict)
    vacuity = []
    missing = [k for k in REQUIRED_COVERAGE if stats.get(k, 0) == 0]
    if missing:
        vacuity.append("the trace never exercises %s" % ", ".join(missing))
    # (4) the same with the wallet crates' transparent-inputs
    tpath_t = ctx.path("trace_t.ndjson")
    info_t = gen_trace(ctx, bindir, tpath_t, 3000 if ctx.quick() else 40000, 1 if ctx.quick() else 2, transparent=True)
    recs_t = read_trace(tpath_t)
    if len(recs_t) != info_t["records"]:
        raise lib.ToolError("driver (transparent) reported %d records, trace has %d" % (info_t["records"], len(recs_t)))
    stats_t, sig_count_t = trace_stats_t(recs_t)
    low = ["%s (%d < %d)" % (k, stats_t.get(k, 0), v[0 if ctx.quick() else 1]) for k, v in sorted(REQUIRED_COVERAGE_T.items())
           if stats_t.get(k, 0) < v[0 if ctx.quick() else 1]]
    if low:
        vacuity.append("the trace of the transparent-inputs build exercises too little of %s" % ", ".join(low))
    n_known = stats.get("known:orchard_outputs_after_nu63_pool_gains", 0) + sum(1 for r in recs_t if in_known_orchard_class(r))
    if n_known and known_env()["C07_KNOWN_ORCHARD_OUTPUTS"] == "1":
        ex = next(r for r in recs if in_known_orchard_class(r))
        pq, po = pretty(ex["q"]), pretty(ex["o"])
        lib.known_finding(ctx, "id=%s after NU6.3 the Orchard pool gains value when the request carries Orchard outputs "
                               "(%d calls of this run, excused while the entry is open; e.g. sin %s oin %s oout %s at height %s -> "
                               "change %s fee %s)"
                          % (KNOWN_ORCHARD, n_known, pq["sin"], pq["oin"], pq["oout"], pq["targetH"],
                             [(c["pool"], c["v"]) for c in po["change"]], po["fee"]))
    elif known_env()["C07_KNOWN_ORCHARD_OUTPUTS"] == "1":
        lib.log("note: no call of this run falls into the class of known finding %s although the entry is open" % KNOWN_ORCHARD)
    if stats.get("out:panic", 0):
        lib.log("note: %d calls panicked (the specification allows none)" % stats["out:panic"])
    parts = TRACE_PARTS if ctx.quick() else 2 * TRACE_PARTS
    chunk = (len(recs) + parts - 1) // parts
    for i in range(parts):
        sub = recs[i * chunk:(i + 1) * chunk]
        if not sub:
            continue
        name = wrapper(d, "Trace_ChangeStrategy", "Trace_ChangeStrategy_p%d" % i)
        pool.submit(name, 1, lambda name=name, sub=sub, i=i: validate_part(ctx, d, name, sub, ctx.path("part%d.ndjson" % i)))
    parts_t = TRACE_PARTS_T if ctx.quick() else 2 * TRACE_PARTS_T
    chunk = (len(recs_t) + parts_t - 1) // parts_t
    for i in range(parts_t):
        sub = recs_t[i * chunk:(i + 1) * chunk]
        if not sub:
            continue
        name = wrapper(d, "Trace_ChangeStrategy", "Trace_ChangeStrategy_t%d" % i)
        pool.submit(name, 1, lambda name=name, sub=sub, i=i: validate_part(ctx, d, name, sub, ctx.path("part_t%d.ndjson" % i)))
    results = pool.join()

    # (2) spec -> code on the fee rule
    r_emit, cases_path, cases = results["fee_cases"]
    lib.account_tlc(ctx, r_emit)
    fres = fee_replay(ctx, bindir, cases_path)
    if fres["cases"] != len(cases):
        raise lib.ToolError("fee replay consumed %d of %d cases" % (fres["cases"], len(cases)))
    judge_fee(ctx, fres)

    accepted = 0
    for name, res in sorted(results.items()):
        if name.startswith("Trace_ChangeStrategy_p") or name.startswith("Trace_ChangeStrategy_t"):
            acc, rejected, rs = res
            accepted += acc
            for r in rs:
                lib.account_tlc(ctx, r)
            report_rejections(ctx, rejected)
        elif name != "fee_cases":
            for r in res:
                lib.account_tlc(ctx, r)
    if not ctx.violations and accepted != len(recs) + len(recs_t):
        raise lib.ToolError("validated %d of %d trace records" % (accepted, len(recs) + len(recs_t)))
    if not ctx.violations and vacuity:
        raise lib.ToolError("vacuity: " + "; ".join(vacuity))

    ctx.traces = accepted + fres["calls"]
    bal = [r for r in recs if r["a"] == "bal"]
    for pick in ("balance", "insufficient", "dust"):
        for r in bal:
            if r["o"]["k"] == pick and (pick != "balance" or len(r["o"]["change"]) > 1):
                ctx.add_sample(pretty(r))
                break
    for pick in ("balance:transparent_change", "balance:ephemeral_output_listed"):
        for r in recs_t:
            if r["o"]["k"] == "balance" and ((pick.endswith("transparent_change") and any(c["pool"] == "transparent" and not c["eph"] for c in r["o"]["change"]))
                                             or (pick.endswith("listed") and any(c["eph"] for c in r["o"]["change"]) and r["q"]["sin"])):
                ctx.add_sample(pretty(r))
                break
    ctx.add_sample({"fee_case": cases[len(cases) // 2]})
    ctx.extra["trace_coverage"] = stats
    ctx.extra["trace_coverage_transparent_inputs"] = stats_t
    ctx.extra["fee_replay"] = {"cases": fres["cases"], "calls": fres["calls"], "distinct_results": fres["distinct_results"]}
    lib.mc_evidence(
        ctx,
        rule="V: every record of a seeded trace of real fee_required / compute_balance calls (random, boundary-tuned, "
             "deterministic sweep; MAX_MONEY-scale amounts in decimal digit arithmetic) is checked by TLC against "
             "ChangeStrategy!Allowed / Zip317!Fee, and so is every record of a second trace written by the same driver built "
             "with the wallet crates' transparent-inputs (ZIP 320 ephemeral input/output, opt-in transparent change); R: every case of MC_Zip317's exhaustive domain is executed on three "
             "fee-rule implementations; distinct_nontrivial = distinct (outcome class, change count and pools, dust "
             "action, regime, padding, strategy, magnitude, flow shape) signatures in the trace",
        evaluations=ctx.traces, distinct_nontrivial=sig_count + sig_count_t,
        extra={"exhaustive": False, "trace_records": len(recs), "trace_records_transparent_inputs": len(recs_t),
               "fee_cases": len(cases)},
        assumptions=[
            "two builds of one driver source: the baseline feature set of zcash_client_backend (h_tx) and the wallet crates "
            "with transparent-inputs (h_wallet_t: opt-in transparent change policy, transparent change values, the ephemeral "
            "output of a ZIP 320 step listed among the change values); the fee-rule replay (R) uses the baseline build",
            "padding rules of sapling-crypto 0.7.0 / orchard 0.15.3 and the canonical-crossing rule are transcribed as the "
            "specification's environment",
            "default dust threshold = marginal fee; change notes of a split may be below the dust threshold when the "
            "split policy's minimum is (per-note minimum is the split policy's)",
            "refusals are compared relationally: any justified refusal is accepted; DustInputs only by its necessary condition",
        ])


# ------------------------------------------------------------------------------------------------

def replay(ctx, path):
    bindir = build(ctx)
    with open(path) as f:
        rep = json.load(f)
    if rep.get("kind") == "fee_case":
        cp = ctx.path("replay_case.ndjson")
        with open(cp, "w") as f:
            f.write(json.dumps(rep["case"]) + "\n")
        res = fee_replay(ctx, bindir, cp)
        judge_fee(ctx, res)
        if not res["mismatches"]:
            lib.log("replay: fee case now agrees with the specification")
        return
    d = stage(ctx)
    rp = ctx.path("replay_req.ndjson")
    write_trace(rp, [rep["record"]])
    out = ctx.path("replay_trace.ndjson")
    # a record of the transparent-inputs build is re-executed by that build
    tfeat = rep["record"].get("a") == "bal" and rep["record"]["q"].get("tfeat", False)
    lib.run_bin(os.path.join(bindir, "c07_driver_t" if tfeat else "c07_driver"), ["exec", rp, out], timeout=600)
    recs = read_trace(out)
    acc, rejected, rs = validate_part(ctx, d, "Trace_ChangeStrategy", recs, ctx.path("replay_part.ndjson"))
    report_rejections(ctx, rejected)
    if not rejected:
        lib.log("replay: the re-executed call is now allowed by the specification: %s" % json.dumps(pretty(recs[0]["o"] if "o" in recs[0] else recs[0]))[:600])


def selftest_transparent(ctx, bindir, d):
    """Binding of the trace of the `transparent-inputs` build: corruptions of the ephemeral entry, of transparent
    change and of the refusal law must each be rejected at their index."""
    tpath = ctx.path("self_t.ndjson")
    gen_trace(ctx, bindir, tpath, 0, 1, transparent=True)
    allrecs = read_trace(tpath)

    def bal(r):
        return r["o"]["k"] == "balance"

    def real(r):
        return [c for c in r["o"]["change"] if not c["eph"]]

    def std(r):
        return r["q"]["rule"]["m"] == 5000

    def sh_value(r):
        return sum(val(v) for k in SHIELDED_KEYS for v in r["q"][k])
    wanted = {
        "eph_out": lambda r: bal(r) and r["q"]["ephK"] == "out" and r["q"]["sin"] and any(c["eph"] for c in r["o"]["change"]),
        "zero_omitted": lambda r: bal(r) and std(r) and r["q"]["tpolicy"] == "allowed" and not r["o"]["change"] and sh_value(r) == 0
        and not sum(len(r["q"][k]) for k in SHIELDED_KEYS) and not r["q"]["memo"] and r["q"]["act"] == "reject"
        and val(r["o"]["fee"]) == transparent_only_fee(r["q"], 34) > transparent_only_fee(r["q"], 0),
        "shielded_mix": lambda r: bal(r) and r["q"]["tpolicy"] == "allowed" and sh_value(r) > 0 and len(real(r)) == 1
        and real(r)[0]["pool"] != "transparent" and val(real(r)[0]["v"]) > 20000,
        "eph_in": lambda r: bal(r) and std(r) and r["q"]["ephK"] == "in" and not r["q"]["tinV"] and len(real(r)) == 1
        and val(real(r)[0]["v"]) > 20000 and r["q"]["act"] == "reject",
        "dust_kept": lambda r: bal(r) and r["q"]["act"] == "allow" and len(real(r)) == 1 and real(r)[0]["pool"] == "transparent"
        and 0 < val(real(r)[0]["v"]) < (val(r["q"]["thr"]) if r["q"]["hasThr"] else r["q"]["rule"]["m"]),
        "refused_eph_out": lambda r: r["o"]["k"] == "insufficient" and std(r) and r["q"]["ephK"] == "out" and r["q"]["act"] != "reject"
        and val(r["q"]["ephV"]) % 5000 == 0 and val(r["q"]["ephV"]) > 0,
    }
    recs, at = list(allrecs[:200]), {}
    for name, pred in wanted.items():
        hit = next((r for r in allrecs if pred(r)), None)
        if hit is None:
            raise lib.ToolError("selftest (transparent): no record of kind %s" % name)
        at[name] = len(recs)
        recs.append(hit)
    recs += allrecs[200:230]
    acc, rejected, _ = validate_part(ctx, d, "Trace_ChangeStrategy", recs, ctx.path("self_t_part.ndjson"))
    if rejected or acc != len(recs):
        raise lib.ToolError("selftest (transparent): fresh trace not accepted")

    def copy(name):
        return json.loads(json.dumps(recs[at[name]]))
    corruptions = []
    c = copy("eph_out"); c["o"]["change"] = [x for x in c["o"]["change"] if not x["eph"]]
    corruptions.append(("ephemeral output not listed among the change values", "eph_out", c))
    c = copy("eph_out"); c["o"]["change"].append([x for x in c["o"]["change"] if x["eph"]][0])
    corruptions.append(("ephemeral output listed twice", "eph_out", c))
    c = copy("eph_out")
    for x in c["o"]["change"]:
        if x["eph"]:
            x["eph"] = False
    corruptions.append(("ephemeral output presented as transparent change", "eph_out", c))
    c = copy("zero_omitted"); c["o"]["change"] = [{"pool": "transparent", "v": [], "memo": False, "eph": False}]
    corruptions.append(("zero-valued transparent change kept as an output", "zero_omitted", c))
    c = copy("zero_omitted"); c["q"]["tpolicy"] = "shield"
    corruptions.append(("fee of an omitted transparent change output charged although the policy shields change", "zero_omitted", c))
    c = copy("shielded_mix")
    for x in c["o"]["change"]:
        if not x["eph"]:
            x["pool"] = "transparent"
    corruptions.append(("transparent change although the flows carry shielded value", "shielded_mix", c))
    c = copy("eph_in")
    c["o"]["fee"] = dig(val(c["o"]["fee"]) - 5000)
    for x in c["o"]["change"]:
        if not x["eph"]:
            x["v"] = dig(val(x["v"]) + 5000)
    corruptions.append(("one marginal fee moved into the change of a step with an ephemeral input", "eph_in", c))
    c = copy("dust_kept"); c["q"]["act"] = "reject"
    corruptions.append(("dust-valued transparent change under DustAction::Reject", "dust_kept", c))
    c = copy("refused_eph_out"); c["o"]["required"] = dig(val(c["o"]["required"]) - val(c["q"]["ephV"]))
    corruptions.append(("refusal whose required amount leaves out the ephemeral output", "refused_eph_out", c))
    for what, name, c in corruptions:
        i = at[name]
        bad = list(recs)
        bad[i] = c
        p = ctx.path("self_t_bad.ndjson")
        write_trace(p, bad)
        ok, n, detail, r = lib.tlc_validate(ctx, d, "Trace_ChangeStrategy", "Trace_ChangeStrategy.cfg", p, timeout=900,
                                            env_extra=known_env())
        if ok or n != i + 1:
            raise lib.ToolError("selftest (transparent): corruption not rejected at its index (%s; record %d, verdict %s %s)"
                                % (what, i + 1, ok, n))
        lib.log("selftest ok (transparent-inputs build): %s -> rejected at record %d" % (what, n))


def selftest(ctx):
    """Binding demonstration. V: corrupted fields of a fresh trace must be rejected at their index,
    a shortened trace must be noticed; R: a perturbed expected fee must be reported."""
    bindir = build(ctx)
    d = stage(ctx)
    tpath = ctx.path("self.ndjson")
    info = gen_trace(ctx, bindir, tpath, 1500, 0)
    recs = read_trace(tpath)
    acc, rejected, _ = validate_part(ctx, d, "Trace_ChangeStrategy", recs, ctx.path("self_part.ndjson"))
    if rejected or acc != len(recs) or acc != info["records"]:
        raise lib.ToolError("selftest: fresh trace not accepted")

    def find(pred):
        for i, r in enumerate(recs):
            if pred(r):
                return i
        raise lib.ToolError("selftest: no record to corrupt")

    def is_bal(r, k):
        return r["a"] == "bal" and r["o"]["k"] == k
    corruptions = []
    i = find(lambda r: is_bal(r, "balance") and r["o"]["change"] and val(r["o"]["change"][0]["v"]) > 5000)
    c = json.loads(json.dumps(recs[i])); c["o"]["fee"] = dig(val(c["o"]["fee"]) + 1)
    corruptions.append(("fee + 1 (value not conserved)", i, c))
    c = json.loads(json.dumps(recs[i]))
    m = c["q"]["rule"]["m"] or 1
    c["o"]["fee"] = dig(val(c["o"]["fee"]) + m); c["o"]["change"][0]["v"] = dig(val(c["o"]["change"][0]["v"]) - m)
    corruptions.append(("a marginal fee moved from change to fee (conserving, but not the ZIP 317 fee)", i, c))
    c = json.loads(json.dumps(recs[i])); c["o"]["dummy"][1] += 1
    corruptions.append(("recorded Orchard padding + 1", i, c))
    # (standard rule, not Reject: every legitimate `required` is outputs + a multiple of 5000, so +1 matches none)
    i = find(lambda r: is_bal(r, "insufficient") and r["q"]["rule"]["m"] == 5000 and r["q"]["act"] != "reject")
    c = json.loads(json.dumps(recs[i])); c["o"]["required"] = dig(val(c["o"]["required"]) + 1)
    corruptions.append(("InsufficientFunds.required + 1", i, c))
    i = find(lambda r: is_bal(r, "balance"))
    c = json.loads(json.dumps(recs[i])); c["o"]["k"] = "panic"
    corruptions.append(("balance replaced by a panic", i, c))
    i = find(lambda r: is_bal(r, "balance") and r["q"]["nu63H"] >= 0 and r["q"]["targetH"] >= r["q"]["nu63H"]
             and any(c["pool"] == "ironwood" for c in r["o"]["change"]) and not r["q"]["oin"])
    c = json.loads(json.dumps(recs[i]))
    for ch in c["o"]["change"]:
        ch["pool"] = "orchard"
    corruptions.append(("change re-routed into Orchard after NU6.3", i, c))
    i = find(lambda r: r["a"] == "fee" and r["res"] == "ok")
    c = json.loads(json.dumps(recs[i])); c["fee"] += c["rule"]["m"] or 1
    corruptions.append(("fee_required result + one marginal fee", i, c))
    i = find(lambda r: r["a"] == "feebig" and r["res"] == "overflow")
    c = json.loads(json.dumps(recs[i])); c["res"] = "ok"
    corruptions.append(("overflow reported as a value", i, c))
    for what, i, c in corruptions:
        bad = list(recs)
        bad[i] = c
        p = ctx.path("self_bad.ndjson")
        write_trace(p, bad)
        ok, n, detail, r = lib.tlc_validate(ctx, d, "Trace_ChangeStrategy", "Trace_ChangeStrategy.cfg", p, timeout=900,
                                            env_extra=known_env())
        if ok or n != i + 1:
            raise lib.ToolError("selftest: corruption not rejected at its index (%s; record %d, verdict %s %s)" % (what, i + 1, ok, n))
        lib.log("selftest ok: %s -> rejected at record %d" % (what, n))
    # the known-finding switch excuses exactly its class: the documented call is accepted with the switch on and
    # rejected with it off; a gain of the Orchard pool without requested Orchard outputs is rejected either way
    # (corruption "change re-routed into Orchard" above ran with the switch as configured)
    tmpl = json.loads(json.dumps(recs[find(lambda r: r["a"] == "bal")]))
    tmpl["q"].update({"ruleKind": 0, "rule": {"m": 5000, "g": 2, "pin": 150, "pout": 34}, "strat": "single", "hasMeta": False,
                      "splitSingle": False, "target": 1, "minSplit": [], "notes": -1, "metaVar": 0, "act": "reject",
                      "hasThr": False, "thr": [], "fallback": "sapling", "memo": False, "ephK": "none", "ephV": [],
                      "targetH": 350, "nu5H": 100, "nu63H": 200, "anchorH": 143, "interval": 144, "ov3": True, "ovKind": 2,
                      "sapType": "default", "tinV": [], "tinS": [], "tinK": [], "toutV": [], "toutS": [], "toutL": [],
                      "sin": [dig(50000)], "sout": [], "oin": [dig(100000)], "oout": [dig(60000)], "iin": [], "iout": [],
                      "tpolicy": "shield"})
    rq, ro = ctx.path("self_known_req.ndjson"), ctx.path("self_known.ndjson")
    write_trace(rq, [tmpl])
    lib.run_bin(os.path.join(bindir, "c07_driver"), ["exec", rq, ro], timeout=600)
    krec = read_trace(ro)
    if not in_known_orchard_class(krec[0]):
        lib.log("selftest note: the documented call of %s no longer makes the Orchard pool gain: %s"
                % (KNOWN_ORCHARD, json.dumps(pretty(krec[0]["o"]))[:300]))
    else:
        for sw, want in (("1", True), ("0", False)):
            ok, n, detail, r = lib.tlc_validate(ctx, d, "Trace_ChangeStrategy", "Trace_ChangeStrategy.cfg", ro, timeout=900,
                                                env_extra={"C07_KNOWN_ORCHARD_OUTPUTS": sw})
            if ok != want:
                raise lib.ToolError("selftest: known-finding switch %s: documented call accepted=%s" % (sw, ok))
        lib.log("selftest ok: %s is excused only while the switch is on" % KNOWN_ORCHARD)
    # a dropped record is noticed by the count comparison
    short = recs[:-1]
    acc, rejected, _ = validate_part(ctx, d, "Trace_ChangeStrategy", short, ctx.path("self_short.ndjson"))
    if acc == info["records"]:
        raise lib.ToolError("selftest: a dropped record went unnoticed")
    lib.log("selftest ok: dropped record noticed (%d of %d)" % (acc, info["records"]))
    selftest_transparent(ctx, bindir, d)
    # R: perturb one expected fee
    write_cfg(os.path.join(d, "Emit_Zip317.cfg"), ["SPECIFICATION Spec", "CONSTANT Emit = TRUE", "CHECK_DEADLOCK FALSE"])
    r = lib.tlc(ctx, d, "MC_Zip317", "Emit_Zip317.cfg", workers=1, timeout=1500, coverage=False)
    cases = r.prints("CASE")
    case = dict(cases[len(cases) // 3])
    case["fee"] = case["fee"] + case["rule"]["m"]
    cp = ctx.path("self_case.ndjson")
    with open(cp, "w") as f:
        f.write(json.dumps(case) + "\n")
    res = fee_replay(ctx, bindir, cp)
    if not res["mismatches"]:
        raise lib.ToolError("selftest: perturbed expected fee was not reported")
    lib.log("selftest ok: perturbed fee case reported")
