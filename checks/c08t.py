"""C08T - development entry point for the transparent-coin part of C08 (checks/c08_coins.py): `bin/check C08T`,
`bin/check C08T --selftest`, `bin/mutant-run <patch> C08T`.  The registered check is C08 (checks/c08.py calls
c08_coins.run_part / selftest_part / replay_part); this module is not in MANIFEST.json and writes no evidence."""
import json

from . import c08_coins, lib


def run(ctx):
    totals = c08_coins.run_part(ctx)
    lib.log("coin proposal part: states=%d transitions=%d traces=%d %s" % (ctx.states, ctx.transitions, ctx.traces, json.dumps(totals, sort_keys=True)))


def selftest(ctx):
    c08_coins.selftest_part(ctx)


def replay(ctx, path):
    with open(path) as f:
        rep = json.load(f)
    c08_coins.replay_part(ctx, rep)
