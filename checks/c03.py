"""C03 - transaction and block-header wire codecs are faithful and canonical.

1. TLC checks spec/Codec/CompactSize.tla exhaustively at digit base 4 (all 65 536 values: round trip,
   canonicity = every other framing refused, shortest class, prefix-freeness, truncation, trailing
   digits unread, bounded reader/writer) and instantiates it at base 256 for boundary + seeded values;
   the printed cases are executed on the in-repo zcash_encoding 0.5 (`c03_compactsize`, crate h_core)
   and on the registry 0.4 the transaction code links.
2. TLC enumerates, from spec/Codec/TxLayout.tla (the wire grammars as data), every shape valid for
   each (version, branch) pair with per-bundle counts in {0,1,2} plus boundary / seeded shapes, checks
   ParseInverse / PrefixFree / GrammarClosed / LengthLaw on them and prints per shape the flattened
   token sequence, the total length, the predicted in-memory shape and the spec-chosen mutations.
   HeaderLayout.tla does the same for block headers.
3. R: `c03_replay` builds real transactions of every shape (txgen), serialises them and walks the bytes
   with the generic token interpreter; parses back (all fields, txid, auth commitment, predicted
   bundle presence / versions, consumed length with trailing bytes), re-serialises (identical bytes).
   Also the TxVersion header table, the unrepresentable-value table (writer refuses or is faithful)
   and block headers (hash = SHA-256d of the serialisation).
4. V: `c03_driver` derives truncations, extensions, byte changes and the spec-chosen mutations from
   valid encodings, runs them through the real parsers (catch_unwind) and logs one record each; TLC
   validates every record against spec/Codec/Trace_Codec.tla.
"""
import json
import os
import random

from . import lib

AREA = "Codec"
MODULES = ["CompactSize", "MC_CompactSize4", "Emit_CompactSize", "TxLayout", "MC_TxLayout", "HeaderLayout", "Trace_Codec"]
MAX_REPORTED = 3
KF_DANGLING = "C03-v4-dangling-value-balance"
KF_V6BRANCH = "C03-v6-old-branch-orchard-unwritable"
TRACE_KEYS = ("ver", "br", "m", "tk", "tn", "sg", "tv", "tval", "mb", "len", "base", "out", "consumed", "wrote", "reser_len",
              "reser_eq", "reparse", "same_as_base", "pv", "pb", "porch", "psap", "dvb")

PAIRS = [("sprout1", "Sprout"), ("sprout2", "Sprout"), ("v3", "Overwinter")] + \
    [("v4", b) for b in ("Sapling", "Blossom", "Heartwood", "Canopy", "Nu5", "Nu6", "Nu6_1", "Nu6_2", "Nu6_3")] + \
    [("v5", b) for b in ("Nu5", "Nu6", "Nu6_1", "Nu6_2", "Nu6_3")] + [("v6", "Nu6_3")]
# consensus branch ids as published (ZIP 200 ff.; NU6.2 / NU6.3 from the pinned tree's documentation) and group ids
BRANCH_IDS = {"Sprout": 0, "Overwinter": 0x5ba81b19, "Sapling": 0x76b809bb, "Blossom": 0x2bb40e60, "Heartwood": 0xf5b9230b,
              "Canopy": 0xe9ff75a6, "Nu5": 0xc2d6d0b4, "Nu6": 0xc8e71055, "Nu6_1": 0x4dec4df0, "Nu6_2": 0x5437f330,
              "Nu6_3": 0x37a5165b}
GROUP_IDS = {"v3": 0x03C48270, "v4": 0x892F2085, "v5": 0x26A7270A, "v6": 0xD884B698}
MAX_MONEY = 2100000000000000


# ------------------------------------------------------------------------------------------------
# rendering python values as TLA+

def tla(v):
    if isinstance(v, bool):
        return "TRUE" if v else "FALSE"
    if isinstance(v, int):
        return str(v)
    if isinstance(v, str):
        return '"%s"' % v
    if isinstance(v, (list, tuple)):
        return "<< " + ", ".join(tla(x) for x in v) + " >>" if v else "<< >>"
    if isinstance(v, dict):
        return "[" + ", ".join("%s |-> %s" % (k, tla(x)) for k, x in v.items()) + "]"
    if isinstance(v, (set, frozenset)):
        return "{ " + ", ".join(sorted(tla(x) for x in v)) + " }" if v else "{ }"
    raise TypeError(v)


def small_len(i):
    return 25 if i == 1 else 0 if i == 2 else 1 + ((i * 37) % 200)


def canon_proof(n):
    return 2720 + 2272 * n


def has(ver, what):
    return {"sprout": ver in ("sprout2", "sprout3", "sprout2147483647", "v3", "v4"), "sapling": ver in ("v4", "v5", "v6"),
            "orchard": ver in ("v5", "v6"), "ironwood": ver == "v6"}[what]


def mk_shape(ver, branch, nIn=0, nOut=0, nJS=0, nSp=0, nSO=0, nAct=0, nIrw=0, sigLen=None, pkLen=None, proofLen=None):
    return {"ver": ver, "branch": branch, "nIn": nIn, "nOut": nOut, "nJS": nJS, "nSp": nSp, "nSO": nSO, "nAct": nAct, "nIrw": nIrw,
            "sigLen": list(sigLen) if sigLen is not None else [small_len(i) for i in range(1, nIn + 1)],
            "pkLen": list(pkLen) if pkLen is not None else [small_len(i) for i in range(1, nOut + 1)],
            "proofLen": 0 if nAct == 0 else (canon_proof(nAct) if proofLen is None else proofLen),
            "iwProofLen": 0 if nIrw == 0 else canon_proof(nIrw)}


def extra_shapes(seed, quick):
    """Boundary shapes (CompactSize class edges in every count / length, the pre-Overwinter versions >= 3,
    non-canonical proof lengths where the bundle version permits them) and seeded random shapes."""
    ex = []
    for ver in ("sprout3", "sprout2147483647"):
        for (a, b, j) in ((0, 0, 0), (1, 1, 1), (2, 0, 2), (0, 3, 0)):
            ex.append(mk_shape(ver, "Sprout", nIn=a, nOut=b, nJS=j))
    edge = [252, 253] if quick else [252, 253, 254, 300]
    for n in edge:
        ex.append(mk_shape("v5", "Nu5", nIn=n, nOut=1))
        ex.append(mk_shape("v4", "Canopy", nIn=1, nOut=n))
        ex.append(mk_shape("sprout1", "Sprout", nIn=n, nOut=n))
    ex.append(mk_shape("v5", "Nu6_2", nIn=1, nSO=253, nSp=1))
    ex.append(mk_shape("v4", "Sapling", nSp=253, nSO=2))
    ex.append(mk_shape("v5", "Nu6", nSp=253, nSO=0))
    ex.append(mk_shape("v4", "Nu6_3", nOut=1, nSO=252, nJS=1))
    ex.append(mk_shape("v3", "Overwinter", nIn=1, nJS=3))
    ex.append(mk_shape("v5", "Nu6_3", nAct=5, nSp=3, nSO=4, nIn=3, nOut=3))
    ex.append(mk_shape("v6", "Nu6_3", nAct=3, nIrw=4, nSp=3, nSO=3, nIn=4, nOut=5))
    if not quick:
        ex.append(mk_shape("v5", "Nu6_2", nAct=253))
        ex.append(mk_shape("v6", "Nu6_3", nAct=1, nIrw=253))
        ex.append(mk_shape("v4", "Blossom", nJS=253))
        ex.append(mk_shape("v6", "Nu6_3", nAct=252, nIrw=2))
    for l in ([252, 253, 65535, 65536] if quick else [252, 253, 254, 255, 256, 65535, 65536, 65537, 100000]):
        ex.append(mk_shape("v5", "Nu6_1", nIn=2, nOut=1, sigLen=[l, 3]))
        ex.append(mk_shape("v4", "Heartwood", nIn=1, nOut=2, pkLen=[1, l]))
        ex.append(mk_shape("v6", "Nu6_3", nIn=1, nOut=1, sigLen=[l], pkLen=[l], nIrw=1))
    # the historical Orchard bundle version (NU5..NU6.1) does not fix the proof length
    for (br, pl) in (("Nu5", 0), ("Nu5", 1), ("Nu6", 252), ("Nu6", 253), ("Nu6_1", 65535), ("Nu6_1", 65536), ("Nu5", canon_proof(2) + 1),
                     ("Nu6", canon_proof(1) - 1)):
        ex.append(mk_shape("v5", br, nAct=2 if pl > 7000 else 1, nOut=1, proofLen=pl))
    rnd = random.Random(seed * 1000003 + 3)
    for _ in range(60 if quick else 400):
        ver, br = rnd.choice(PAIRS)
        c = lambda ok: rnd.choice([0, 1, 2, 3, 4]) if ok else 0
        orch = has(ver, "orchard") and br in ("Nu5", "Nu6", "Nu6_1", "Nu6_2", "Nu6_3")
        nIn, nOut = c(True), c(True)
        ex.append(mk_shape(ver, br, nIn=nIn, nOut=nOut, nJS=c(has(ver, "sprout")), nSp=c(has(ver, "sapling")),
                           nSO=c(has(ver, "sapling")), nAct=c(orch), nIrw=c(has(ver, "ironwood") and br == "Nu6_3"),
                           sigLen=[rnd.choice([0, 1, 2, 33, 107, 252, 253, 254, 300]) for _ in range(nIn)],
                           pkLen=[rnd.choice([0, 1, 23, 25, 35, 252, 253, 400]) for _ in range(nOut)]))
    uniq = {}
    for s in ex:
        uniq[json.dumps(s, sort_keys=True)] = s
    return list(uniq.values())


# ------------------------------------------------------------------------------------------------
# building, staging

def build():
    d1 = lib.cargo_build("h_core", ["c03_compactsize"])
    d2 = lib.cargo_build("h_tx", ["c03_replay", "c03_driver"])
    return {"cs": os.path.join(d1, "c03_compactsize"), "replay": os.path.join(d2, "c03_replay"), "driver": os.path.join(d2, "c03_driver")}


def stage(ctx, sany=True):
    d = lib.stage_specs(ctx, AREA)
    # generated modules must exist before SANY sees the ones that are extended
    if sany:
        for m in MODULES:
            lib.sany(os.path.join(d, m + ".tla"))
    return d


def known_flags():
    if os.environ.get("VERIF_C03_STRICT"):     # development aid: behave as if no known finding were listed
        return {"dangling": False, "v6branch": False}
    ids = {f.get("id") for f in lib.load_known_findings() if f.get("property") == "C03" and f.get("status") == "open"}
    return {"dangling": KF_DANGLING in ids, "v6branch": KF_V6BRANCH in ids}


def finding_text(fid):
    for f in lib.load_known_findings():
        if f.get("id") == fid:
            return f.get("what", "")
    return ""


# ------------------------------------------------------------------------------------------------
# (1) CompactSize

def le8(v):
    return [(v >> (8 * i)) & 255 for i in range(8)]


def cs_samples(seed, quick):
    vals = [0, 1, 2, 127, 128, 251, 252, 253, 254, 255, 256, 257, 0xFFFE, 0xFFFF, 0x10000, 0x10001, 0xFFFFFF, 0x1000000,
            0x1FFFFFF, 0x2000000, 0x2000001, 0x2000100, 0x7FFFFFFF, 0x80000000, 0xFFFFFFFE, 0xFFFFFFFF, 0x100000000,
            0x100000001, (1 << 63) - 1, 1 << 63, (1 << 64) - 2, (1 << 64) - 1]
    rnd = random.Random(seed * 7919 + 11)
    for bits in (8, 16, 25, 32, 48, 64):
        for _ in range(4 if quick else 40):
            vals.append(rnd.getrandbits(bits))
    return sorted(set(vals))


def compactsize(ctx, d, bins, totals):
    # quick: the two most significant digits range over {0, 3} (all class structure lives in the low six digits)
    top = "{0, 3}" if ctx.quick() else "{0, 1, 2, 3}"
    with open(os.path.join(d, "MC_CompactSize4_run.cfg"), "w") as f:
        f.write("SPECIFICATION Spec\nCONSTANTS\n  B = 4\n  MaxV <- MaxVDef\n  TopDigits = %s\nINVARIANT Thm\nCHECK_DEADLOCK FALSE\n" % top)
    r = lib.tlc(ctx, d, "MC_CompactSize4", "MC_CompactSize4_run.cfg", workers=8, timeout=900)
    want = 4 ** 6 * (4 if ctx.quick() else 16)
    if r.distinct != want:
        raise lib.ToolError("vacuity: MC_CompactSize4 explored %d values instead of %d" % (r.distinct, want))
    lib.account_tlc(ctx, r)
    cases = emit_cs_cases(ctx, d, cs_samples(ctx.seed, ctx.quick()), [0, 1, 2, 252, 253, 254, 300] + ([] if ctx.quick() else [65535, 65536]))
    path = ctx.path("cs_cases.ndjson")
    write_ndjson(path, cases)
    res = run_json(bins["cs"], [path])
    if res["csw"] + res["csr"] + res["vec"] + res["opt"] != len(cases):
        raise lib.ToolError("c03_compactsize ran %d of %d cases" % (res["csw"] + res["csr"] + res["vec"] + res["opt"], len(cases)))
    need = {"bnd:false", "bnd:true", "unb:false", "unb:true", "vec:false", "vec:true", "opt:false", "opt:true", "w1", "w3", "w5", "w9"}
    if not need <= set(res["classes"]):
        raise lib.ToolError("vacuity: CompactSize case classes missing: %s" % sorted(need - set(res["classes"])))
    seen = []
    for m in res["mismatches"]:
        if m["case"] in seen or len(seen) >= MAX_REPORTED:
            continue
        seen.append(m["case"])
        lib.violation(ctx, {"property": "C03", "kind": "compactsize", "case": m["case"]},
                      "in-repo zcash_encoding disagrees with spec/Codec/CompactSize.tla: %s: %s" % (m["api"], m["what"]))
    totals["compactsize_cases"] = len(cases)
    totals["compactsize_calls"] = res["calls"]
    ctx.add_sample({"compactsize_case": cases[len(cases) // 3]})
    return cases


def emit_cs_cases(ctx, d, samples, veclens):
    with open(os.path.join(d, "MC_cs256.tla"), "w") as f:
        f.write("---- MODULE MC_cs256 ----\nEXTENDS Emit_CompactSize\nSamplesDef == %s\nVecLensDef == %s\n====\n"
                % (tla({tuple(le8(v)) for v in samples}), tla(set(veclens))))
    with open(os.path.join(d, "MC_cs256.cfg"), "w") as f:
        f.write("INIT Init\nNEXT Next\nCONSTANTS\n  B = 256\n  MaxV <- MaxV256\n  Samples <- SamplesDef\n  VecLens <- VecLensDef\n")
    r = lib.tlc(ctx, d, "MC_cs256", "MC_cs256.cfg", workers=1, timeout=600, coverage=False, xss="256m")
    lib.account_tlc(ctx, r)
    cases = []
    for tag in ("CSW", "CSR", "VEC", "OPT"):
        for o in r.prints(tag):
            cases.append(dict(o, T=tag.lower()))
    if len([c for c in cases if c["T"] == "csw"]) != len(samples):
        raise lib.ToolError("Emit_CompactSize printed %d write cases for %d samples" % (len([c for c in cases if c["T"] == "csw"]), len(samples)))
    # sanity of the transport: the printed encodings denote the sample values
    for c in cases:
        if c["T"] == "csw" and int.from_bytes(bytes(c["v"]), "little") not in samples:
            raise lib.ToolError("CompactSize sample garbled in transport")
    return cases


# ------------------------------------------------------------------------------------------------
# (2) layouts from TLC

MUT_BRANCHES_QUICK = ["Sprout", "Overwinter", "Sapling", "Nu5", "Nu6_2", "Nu6_3"]


def emit_layouts(ctx, d, extra, counts="{0, 1, 2}", emit=True, name="tx", workers=8, mut_branches=None):
    with open(os.path.join(d, "MC_%s.tla" % name), "w") as f:
        f.write("---- MODULE MC_%s ----\nEXTENDS MC_TxLayout\nExtraDef == %s\n"
                "MutBranchesDef == %s\n====\n"
                % (name, "{ " + ",\n  ".join(tla(s) for s in extra) + " }" if extra else "{ }", tla(set(mut_branches or MUT_BRANCHES_QUICK))))
    with open(os.path.join(d, "MC_%s.cfg" % name), "w") as f:
        f.write("SPECIFICATION Spec\nCONSTANTS\n  Counts = %s\n  Extra <- ExtraDef\n  MutCounts = {0, 1}\n  MutBranches <- MutBranchesDef\n"
                "  PFCounts = {0, 1}\n  Emit = %s\nINVARIANTS Thm PF\nCHECK_DEADLOCK FALSE\n" % (counts, "TRUE" if emit else "FALSE"))
    def once(w):
        r = lib.tlc(ctx, d, "MC_%s" % name, "MC_%s.cfg" % name, workers=w, timeout=1500, xss="256m")
        lib.require_coverage(r, ["Eval"])
        if not emit:
            return r, [], [], [], []
        try:
            return r, r.prints("CASE"), r.prints("HDR"), r.prints("WCASES"), r.prints("CONST")
        except ValueError:          # a printed line garbled by concurrent workers
            return r, [], [], [], []

    r, cases, hdr, wcases, const = once(workers)
    if emit and len(cases) * 2 != r.distinct and workers > 1:
        lib.log("note: %d cases parsed for %d states; repeating the emission with one worker" % (len(cases), r.distinct))
        r, cases, hdr, wcases, const = once(1)
    lib.account_tlc(ctx, r)
    if not emit:
        return r, [], None, None, None
    if not (cases and hdr and wcases and const):
        raise lib.ToolError("MC_TxLayout printed no cases / tables")
    if len(cases) * 2 != r.distinct:
        raise lib.ToolError("MC_TxLayout printed %d cases for %d states" % (len(cases), r.distinct))
    check_constants(const[0])
    cases.sort(key=lambda c: json.dumps(c["shape"], sort_keys=True))
    for i, c in enumerate(cases):
        c["id"] = i
        c["T"] = "case"
    return r, cases, hdr[0], wcases[0], const[0]


def check_constants(c):
    """The byte tuples of the specification denote the published identifiers (transport / typo guard)."""
    if int.from_bytes(bytes(c["maxMoney"]), "little") != MAX_MONEY:
        raise lib.ToolError("MaxMoney of TxLayout.tla is not 2.1e15")
    for b, v in BRANCH_IDS.items():
        if int.from_bytes(bytes(c["branchIds"][b]), "little") != v:
            raise lib.ToolError("branch id of %s in TxLayout.tla differs from the published one" % b)
    for g, v in GROUP_IDS.items():
        if int.from_bytes(bytes(c["groupIds"][g]), "little") != v:
            raise lib.ToolError("version group id of %s in TxLayout.tla differs from the published one" % g)
    if sorted(map(tuple, c["pairs"])) != sorted(PAIRS):
        raise lib.ToolError("(version, branch) pairs of TxLayout.tla: %s" % c["pairs"])


def emit_headers(ctx, d, sol_lens):
    with open(os.path.join(d, "MC_hdr.tla"), "w") as f:
        f.write("---- MODULE MC_hdr ----\nEXTENDS HeaderLayout\n====\n")
    with open(os.path.join(d, "MC_hdr.cfg"), "w") as f:
        f.write("INIT HInit\nNEXT HNext\nCONSTANTS\n  SolLens = %s\n" % tla(set(sol_lens)))
    r = lib.tlc(ctx, d, "MC_hdr", "MC_hdr.cfg", workers=1, timeout=600, coverage=False, xss="256m")
    lib.account_tlc(ctx, r)
    hc = r.prints("HCASE")
    if len(hc) != len(set(sol_lens)):
        raise lib.ToolError("HeaderLayout printed %d cases" % len(hc))
    for h in hc:
        h["T"] = "hcase"
    return hc


# ------------------------------------------------------------------------------------------------
# helpers

def write_ndjson(path, recs):
    with open(path, "w") as f:
        for r in recs:
            f.write(json.dumps(r) + "\n")


def run_json(binary, args, seed=None, timeout=1500, env=None):
    e = dict(env or {})
    if seed is not None:
        e["VERIF_SEED"] = str(seed)
    p = lib.run_bin(binary, args, env_extra=e, timeout=timeout)
    return json.loads(p.stdout.strip().splitlines()[-1])


def strip_case(c, samples):
    o = {k: c[k] for k in ("T", "id", "shape", "tokens", "total", "mem")}
    o["samples"] = samples
    return o


def shape_text(s):
    parts = ["%s/%s" % (s["ver"], s["branch"])]
    for k in ("nIn", "nOut", "nJS", "nSp", "nSO", "nAct", "nIrw"):
        if s[k]:
            parts.append("%s=%d" % (k, s[k]))
    return " ".join(parts)


# ------------------------------------------------------------------------------------------------
# (3) replay

def replay_cases(ctx, bins, cases, hdr, wcases, hcases, cs_cases, samples, totals):
    recs = [strip_case(c, samples) for c in cases]
    recs.append({"T": "hdr", "cases": hdr})
    recs.append({"T": "wcases", "cases": wcases})
    recs += [dict(h, samples=samples) for h in hcases]
    recs += [dict(c, K=c["T"], T="cs04") for c in cs_cases if c["T"] in ("csw", "csr")]
    path = ctx.path("replay_cases.ndjson")
    write_ndjson(path, recs)
    res = run_json(bins["replay"], [path], seed=ctx.seed)
    if res["transactions"] != len(cases) * samples or res["block_headers"] != len(hcases) * samples \
            or res["header_table"] != len(hdr) or res["wcases"] != 3 * len(wcases):
        raise lib.ToolError("c03_replay ran %s" % {k: res[k] for k in ("transactions", "block_headers", "header_table", "wcases")})
    by_id = {c["id"]: c for c in cases}
    for m in res["mismatches"][:MAX_REPORTED]:
        report_replay_mismatch(ctx, m, by_id, hdr, hcases, ctx.seed)
    for k in ("transactions", "header_table", "wcases", "block_headers", "cs04", "bytes", "fields_compared", "distinct_ids", "version_branch_pairs"):
        totals[k] = totals.get(k, 0) + res[k] if k not in ("version_branch_pairs",) else res[k]
    totals["replay_mismatches"] = res["mismatch_count"]
    return res


def report_replay_mismatch(ctx, m, by_id, hdr, hcases, seed):
    kind = m["kind"]
    if kind == "case":
        c = by_id[m["id"]]
        lib.violation(ctx, {"property": "C03", "kind": "case", "seed": seed, "sample": m["sample"], "case": strip_case(c, 1)},
                      "transaction codec disagrees with spec/Codec/TxLayout.tla on shape [%s] (sample %d): %s"
                      % (shape_text(c["shape"]), m["sample"], " | ".join(m["what"])[:1500]))
    elif kind == "hdr":
        lib.violation(ctx, {"property": "C03", "kind": "hdr", "seed": seed, "case": m["case"]}, m["what"])
    elif kind == "wcase":
        lib.violation(ctx, {"property": "C03", "kind": "wcase", "seed": seed, "case": m["case"]}, m["what"])
    elif kind == "hcase":
        h = [x for x in hcases if x["solLen"] == m["solLen"]][0]
        lib.violation(ctx, {"property": "C03", "kind": "hcase", "seed": seed, "sample": m["sample"], "case": h},
                      "block header codec disagrees with spec/Codec/HeaderLayout.tla (solution of %d bytes): %s"
                      % (m["solLen"], " | ".join(m["what"])[:1500]))
    elif kind == "cs04":
        lib.violation(ctx, {"property": "C03", "kind": "cs04", "seed": seed, "case": m["case"]}, m["what"])
    else:
        raise lib.ToolError("unknown mismatch kind %s" % kind)


# ------------------------------------------------------------------------------------------------
# (4) robustness trace

def write_trace(path, recs):
    with open(path, "w") as f:
        for r in recs:
            f.write(json.dumps({k: r[k] for k in TRACE_KEYS}) + "\n")
        f.write(json.dumps({"m": "end", "len": len(recs)}) + "\n")


def trace_cfg(d, flags, name="Trace_run.cfg"):
    with open(os.path.join(d, name), "w") as f:
        f.write("SPECIFICATION TraceSpec\nCONSTANTS\n  KnownDanglingBalance = %s\n  KnownV6OldBranch = %s\nPOSTCONDITION Accepted\n"
                "CHECK_DEADLOCK FALSE\n" % (tla(flags["dangling"]), tla(flags["v6branch"])))
    return name


WHY = {"malformed": "malformed record (harness)", "panic": "the parser panicked",
       "must-reject": "accepted, but the specification marks this byte string invalid",
       "must-accept": "a valid encoding (possibly followed by other bytes) must be accepted as itself, consuming exactly its length",
       "over-consumed": "consumed more than the input", "unwritable": "accepted a value that cannot be serialised again",
       "reparse-differs": "the re-serialisation of the accepted value does not parse to the same value",
       "non-canonical": "accepted a second representation: the re-serialisation differs from the consumed bytes",
       "misplaced-end": "end record out of place", "missing-end": "missing end record"}


def why_text(detail):
    code = (detail or "").split(",")[-1].strip().strip('"')
    return code, WHY.get(code, code)


def is_dangling(r):
    return r["out"] == "acc" and r["pv"] == "v4" and not r["psap"] and r["wrote"] and not r["reser_eq"] and r["dvb"] \
        and r["reparse"] == "same_fields"


def is_v6branch(r):
    return r["out"] == "acc" and r["pv"] == "v6" and r["pb"] in ("Nu5", "Nu6", "Nu6_1", "Nu6_2") and r["porch"] and not r["wrote"]


def describe_record(r):
    tok = "" if r["tk"] == "-" else " at %s" % r["tn"]
    what = {"id": "the valid encoding", "trunc": "truncation to %d of %d bytes" % (r["len"], r["base"]),
            "extend": "extension by %d byte(s)" % (r["len"] - r["base"]), "flip": "one byte changed"}.get(r["m"], "mutation %s" % r["m"])
    res = {"acc": "accepted (consumed %d of %d; re-serialised: %s, equal to the consumed bytes: %s; reparse: %s)"
                  % (r["consumed"], r["len"], r["wrote"], r["reser_eq"], r["reparse"]),
           "rej": "rejected", "panic": "PANIC"}[r["out"]]
    return "%s encoding [%s/%s], %s%s -> %s" % ("block header" if r["ver"] == "hdr" else "transaction", r["ver"], r["br"], what, tok, res)


def judge_trace(ctx, d, recs, cases_by_id, hcases, flags, tag, seed):
    """Validates the records; rejected records are violations (first MAX_REPORTED, each with its replay file)."""
    recs = list(recs)
    cfg = trace_cfg(d, flags)
    reported = 0
    while True:
        path = ctx.path("trace_%s_%d.ndjson" % (tag, reported))
        write_trace(path, recs)
        ok, n, detail, r = lib.tlc_validate(ctx, d, "Trace_Codec", cfg, path, timeout=2400)
        lib.account_tlc(ctx, r)
        if ok:
            return len(recs)
        if n < 1 or n > len(recs):
            raise lib.ToolError("trace rejected at its end marker (%s)" % detail[:300])
        bad = recs[n - 1]
        code, why = why_text(detail)
        if code == "malformed":
            raise lib.ToolError("the driver produced a malformed record: %s" % json.dumps(bad)[:600])
        case = cases_by_id.get(bad["c"]) if bad["ver"] != "hdr" else [h for h in hcases if h["solLen"] == bad["c"]][0]
        lib.violation(ctx, {"property": "C03", "kind": "mutant", "seed": seed,
                            "case": {k: case[k] for k in case if k not in ("muts",)},
                            "mutant": {"m": bad["m"], "t": bad.get("t"), "at": bad.get("at", 0), "cut": bad.get("cut", 0),
                                       "ins": bad["mb"], "rej": bad.get("srej", False)}},
                      "parser robustness: %s - %s" % (describe_record(bad), why))
        reported += 1
        del recs[n - 1]
        if reported >= MAX_REPORTED:
            return len(recs)


def robustness(ctx, d, bins, cases, hcases, totals, flags):
    vcases = [c for c in cases if c["v"]]
    if len(vcases) < 100:
        raise lib.ToolError("vacuity: only %d shapes carry mutations" % len(vcases))
    path = ctx.path("v_cases.ndjson")
    write_ndjson(path, vcases + hcases)
    out = ctx.path("driver.ndjson")
    env = {} if ctx.quick() else {"C03_DENSE": "1"}
    summary = run_json(bins["driver"], [path, out], seed=ctx.seed, env=env)
    with open(out) as f:
        recs = [json.loads(l) for l in f if l.strip()]
    if summary["records"] != len(recs) or summary["bases"] != len(vcases) + len(hcases):
        raise lib.ToolError("driver trace incomplete: %s" % {k: summary[k] for k in ("records", "bases")})
    nobase = [r for r in recs if r["m"] == "nobase"]
    recs = [r for r in recs if r["m"] != "nobase"]
    if nobase and not ctx.violations:
        raise lib.ToolError("driver could not produce %d valid base encodings although the replay direction agrees: %s" % (len(nobase), nobase[0]["tn"]))
    by_id = {c["id"]: c for c in cases}
    # known deviations of the pinned tree (known_findings.json), printed once each with a concrete input
    for fid, pred, on in ((KF_DANGLING, is_dangling, flags["dangling"]), (KF_V6BRANCH, is_v6branch, flags["v6branch"])):
        hits = [r for r in recs if pred(r)]
        totals["known_" + fid] = len(hits)
        if hits and on:
            lib.known_finding(ctx, "id=%s records=%d first=[%s] %s" % (fid, len(hits), describe_record(hits[0]), finding_text(fid)[:400]))
    accepted = judge_trace(ctx, d, recs, by_id, hcases, flags, "run", ctx.seed)
    per = {k: (a, r) for k, a, r in summary["per_class"]}
    if not ctx.violations:
        for k in ("noncanon", "big", "amount", "constant", "trunc"):
            if per.get(k, (0, 0))[1] == 0:
                raise lib.ToolError("vacuity: no rejected mutant of class %s" % k)
        for k in ("id", "extend", "flip", "amount"):
            if per.get(k, (0, 0))[0] == 0:
                raise lib.ToolError("vacuity: no accepted mutant of class %s" % k)
    totals["mutants"] = len(recs)
    totals["mutants_accepted"] = summary["accepted"]
    totals["mutants_rejected"] = summary["rejected"]
    totals["mutant_panics"] = summary["panics"]
    totals["mutant_classes"] = {k: {"accepted": a, "rejected": r} for k, (a, r) in per.items()}
    totals["mutation_bases"] = summary["bases"]
    for m in ("noncanon3", "amt_max1", "trunc"):
        for r in recs:
            if r["m"] == m:
                ctx.add_sample({"mutant": describe_record(r)})
                break
    return accepted


# ------------------------------------------------------------------------------------------------

SOL_LENS_QUICK = [0, 1, 36, 252, 253, 400, 1344]
SOL_LENS_THOROUGH = SOL_LENS_QUICK + [254, 2000, 65535, 65536]


def run(ctx):
    bins = build()
    d = stage(ctx)
    quick = ctx.quick()
    totals = {}
    flags = known_flags()
    cs_cases = compactsize(ctx, d, bins, totals)
    extra = extra_shapes(ctx.seed, quick)
    r, cases, hdr, wcases, const = emit_layouts(ctx, d, extra, mut_branches=None if quick else list(BRANCH_IDS))
    hcases = emit_headers(ctx, d, SOL_LENS_QUICK if quick else SOL_LENS_THOROUGH)
    totals["shapes"] = len(cases)
    totals["extra_shapes"] = len(extra)
    samples = 3 if quick else 8
    replay_cases(ctx, bins, cases, hdr, wcases, hcases, cs_cases, samples, totals)
    c = cases[len(cases) // 2]
    ctx.add_sample({"shape": c["shape"], "total_bytes": c["total"], "tokens": len(c["tokens"]), "mem": c["mem"]})
    validated = 0
    if not ctx.violations or ctx.violations and totals.get("replay_mismatches", 0) < 50:
        validated = robustness(ctx, d, bins, cases, hcases, totals, flags)
    if not ctx.violations:
        if totals["version_branch_pairs"] < len(PAIRS):
            raise lib.ToolError("vacuity: %d (version, branch) pairs replayed" % totals["version_branch_pairs"])
    ctx.traces = totals.get("transactions", 0) + totals.get("block_headers", 0) + validated
    ctx.extra["replay"] = {k: v for k, v in totals.items()}
    ctx.extra["known_finding_flags"] = flags
    lib.mc_evidence(
        ctx,
        rule="every shape TLC enumerates from TxLayout.tla (all per-bundle counts in {0,1,2} for each of the %d valid (version, "
             "branch) pairs + %d boundary/seeded shapes) is materialised %d times as a real transaction and compared token by "
             "token / field by field; every mutant record of the robustness driver is validated by TLC against Trace_Codec; "
             "evaluations = transactions and headers replayed + CompactSize calls + mutants parsed; distinct_nontrivial = "
             "distinct transaction ids of replayed transactions with at least one non-empty bundle + distinct block header hashes" % (len(PAIRS), len(extra), samples),
        evaluations=totals.get("transactions", 0) + totals.get("block_headers", 0) + totals.get("compactsize_calls", 0) + totals.get("mutants", 0),
        distinct_nontrivial=totals.get("distinct_ids", 0),
        extra={"exhaustive_within_bounds": True},
        assumptions=["generated transactions are well-formed for their version: one Sapling anchor per bundle from v5 on, Orchard "
                     "bundle version of the (branch, pool), canonical proof length where the bundle version enforces it",
                     "JoinSplit contents without public accessors (ephemeral key, ciphertexts, PHGR proofs) are compared through "
                     "round-trip byte identity only",
                     "proof / signature / point validity beyond what the decoders check is outside the property",
                     "totality (no panic) is monitored on the generated and mutated inputs only",
                     "zcash_unstable=nu7 / zip-233 fields are not compiled in the baseline configuration and not modelled"])
    if not quick and not ctx.violations:
        selftest(ctx)


# ------------------------------------------------------------------------------------------------

def replay(ctx, path):
    bins = build()
    with open(path) as f:
        rep = json.load(f)
    kind = rep["kind"]
    ctx.seed = rep.get("seed", ctx.seed)
    if kind == "compactsize":
        p = ctx.path("replay_cs.ndjson")
        write_ndjson(p, [rep["case"]])
        res = run_json(bins["cs"], [p])
        for m in res["mismatches"][:1]:
            lib.violation(ctx, rep, "in-repo zcash_encoding disagrees with spec/Codec/CompactSize.tla: %s: %s" % (m["api"], m["what"]))
    elif kind in ("case", "hdr", "wcase", "hcase", "cs04"):
        if kind == "case":
            recs = [dict(rep["case"], only_sample=rep["sample"], samples=1)]
        elif kind == "hdr":
            recs = [{"T": "hdr", "cases": [rep["case"]]}]
        elif kind == "wcase":
            recs = [{"T": "wcases", "cases": [rep["case"]]}]
        elif kind == "hcase":
            recs = [dict(rep["case"], samples=rep["sample"] + 1)]
        else:
            recs = [rep["case"]]
        p = ctx.path("replay_case.ndjson")
        write_ndjson(p, recs)
        res = run_json(bins["replay"], [p], seed=ctx.seed)
        for m in res["mismatches"][:1]:
            what = m["what"] if isinstance(m["what"], str) else " | ".join(m["what"])
            lib.violation(ctx, rep, "C03 replay still disagrees: %s" % what[:1500])
    elif kind == "mutant":
        d = stage(ctx, sany=False)
        flags = known_flags()
        p = ctx.path("replay_mutant.ndjson")
        write_ndjson(p, [{"T": "replay", "seed": ctx.seed, "case": rep["case"], "mutant": rep["mutant"]}])
        out = ctx.path("replay_trace.ndjson")
        run_json(bins["driver"], [p, out], seed=ctx.seed)
        with open(out) as f:
            recs = [json.loads(l) for l in f if l.strip()]
        if len(recs) != 1:
            raise lib.ToolError("replay produced %d records" % len(recs))
        rec = recs[0]
        rec.setdefault("c", 0)
        tp = ctx.path("replay_trace_v.ndjson")
        write_trace(tp, [rec])
        ok, n, detail, r = lib.tlc_validate(ctx, d, "Trace_Codec", trace_cfg(d, flags), tp, timeout=600)
        if not ok:
            code, why = why_text(detail)
            if code == "malformed":
                raise lib.ToolError("replay record malformed: %s" % json.dumps(rec)[:500])
            lib.violation(ctx, rep, "parser robustness: %s - %s (input %s%s)" % (describe_record(rec), why,
                                                                               rec.get("hex", "")[:400], "..." if len(rec.get("hex", "")) > 400 else ""))
    else:
        raise lib.ToolError("unknown replay kind %s" % kind)
    if not ctx.violations:
        lib.log("replay: the code now agrees with the specification on this case")


# ------------------------------------------------------------------------------------------------

def selftest(ctx):
    """Binding demonstration: perturbed predictions must be reported by the harnesses, corrupted trace records must be
    rejected by TLC at their index, perturbed specifications must be refuted by TLC's theorems."""
    bins = build()
    d = stage(ctx)
    # small but complete set of artefacts
    extra = [mk_shape("v5", "Nu5", nIn=2, nOut=1, sigLen=[253, 3]), mk_shape("v5", "Nu6", nAct=1, nOut=1, proofLen=253)]
    r, cases, hdr, wcases, const = emit_layouts(ctx, d, extra, counts="{0, 1}", name="self")
    hcases = emit_headers(ctx, d, [0, 36, 253])
    cs_cases = emit_cs_cases(ctx, d, [0, 252, 253, 0xFFFF, 0x10000, 0x2000000, 0x2000001, (1 << 64) - 1], [0, 1, 253])

    def replay_run(recs):
        p = ctx.path("self_cases.ndjson")
        write_ndjson(p, recs)
        return run_json(bins["replay"], [p], seed=ctx.seed)

    base = [strip_case(c, 2) for c in cases] + [{"T": "hdr", "cases": hdr}, {"T": "wcases", "cases": wcases}] + [dict(h, samples=2) for h in hcases]
    res = replay_run(base)
    if res["mismatches"]:
        raise lib.ToolError("selftest: unperturbed cases are reported: %s" % json.dumps(res["mismatches"][0])[:600])

    def expect(name, recs, needle=None):
        res = replay_run(recs)
        if not res["mismatches"]:
            raise lib.ToolError("selftest: perturbation '%s' was not reported" % name)
        text = json.dumps(res["mismatches"])
        if needle and needle not in text:
            raise lib.ToolError("selftest: perturbation '%s' reported for another reason: %s" % (name, text[:400]))
        lib.log("selftest ok: %s -> %s" % (name, text[:160]))

    def pick(pred):
        for c in cases:
            if pred(c["shape"]):
                return json.loads(json.dumps(strip_case(c, 2)))
        raise lib.ToolError("selftest: no case to perturb")

    # (a) two fields exchanged in the layout
    c = pick(lambda s: s["ver"] == "v5" and s["nSp"] == 1 and s["nSO"] == 1 and s["branch"] == "Nu5")
    i = [j for j, t in enumerate(c["tokens"]) if t["n"] == "spend.nf"][0]
    c["tokens"][i], c["tokens"][i + 1] = c["tokens"][i + 1], c["tokens"][i]
    expect("fields exchanged", [c], "layout")
    # (b) a count prefix in a wider CompactSize class
    c = pick(lambda s: s["ver"] == "v4" and s["nIn"] == 1 and s["branch"] == "Sapling")
    t = [t for t in c["tokens"] if t["n"] == "nIn"][0]
    t["enc"] = [253, 1, 0]
    c["total"] += 2
    expect("non-minimal count expected", [c], "count nIn")
    # (c) a conditional field predicted although the bundle is empty
    c = pick(lambda s: s["ver"] == "v5" and s["nSp"] == 0 and s["nSO"] == 0 and s["nAct"] == 1 and s["branch"] == "Nu6_2")
    i = [j for j, t in enumerate(c["tokens"]) if t["n"] == "nSO"][0]
    c["tokens"].insert(i + 1, {"k": "a", "n": "sapling.vb", "i": 0, "len": 8, "sg": "s"})
    c["total"] += 8
    expect("valueBalance for an empty bundle", [c], "layout")
    # (d) predicted in-memory shape: bundle presence, bundle version
    c = pick(lambda s: s["ver"] == "v6" and s["nIrw"] == 1 and s["nAct"] == 0)
    c["mem"]["ironwood"] = False
    expect("bundle presence", [c], "ironwood bundle")
    c = pick(lambda s: s["ver"] == "v5" and s["nAct"] == 1 and s["branch"] == "Nu6_2")
    c["mem"]["orchardVersion"] = "orchard_v3"
    expect("bundle version", [c], "orchardVersion")
    # (e) a constant of the format
    c = pick(lambda s: s["ver"] == "v5" and s["branch"] == "Nu6_1" and s["nIn"] == 1)
    t = [t for t in c["tokens"] if t["n"] == "branch"][0]
    t["val"] = list(BRANCH_IDS["Nu6"].to_bytes(4, "little"))
    expect("branch id constant", [c], "branch")
    # (f) header table entry
    h2 = json.loads(json.dumps(hdr))
    e = [x for x in h2 if x["res"]["ok"] and x["res"]["ver"] == "v5"][0]
    e["res"] = {"ok": False, "n": 0, "ver": "-", "num": 0}
    expect("header table", [{"T": "hdr", "cases": h2}], "TxVersion::read")
    # (g) block header: hash span, field order
    h = json.loads(json.dumps(dict(hcases[1], samples=2)))
    h["hash"]["to"] -= 1
    expect("header hash span", [h], "SHA-256d")
    h = json.loads(json.dumps(dict(hcases[1], samples=2)))
    h["tokens"][4], h["tokens"][5] = h["tokens"][5], h["tokens"][4]
    h["tokens"][1], h["tokens"][2] = h["tokens"][2], h["tokens"][1]
    expect("header field order", [h], "layout")
    # (h) CompactSize: expected verdict flipped
    cs = json.loads(json.dumps(cs_cases))
    e = [x for x in cs if x["T"] == "csr" and not x["unb"]["ok"] and len(x["bytes"]) == 3][0]
    e["unb"] = {"ok": True, "v": le8(e["bytes"][1]), "n": 3}
    p = ctx.path("self_cs.ndjson")
    write_ndjson(p, cs)
    res = run_json(bins["cs"], [p])
    if res["mismatch_count"] != 1:
        raise lib.ToolError("selftest: flipped CompactSize verdict gave %d reports" % res["mismatch_count"])
    lib.log("selftest ok: CompactSize verdict flipped -> %s" % res["mismatches"][0]["what"][:120])

    # V: corrupt records of a fresh trace
    vcases = [c for c in cases if c["v"]][:40]
    p = ctx.path("self_v.ndjson")
    write_ndjson(p, vcases + hcases)
    out = ctx.path("self_driver.ndjson")
    run_json(bins["driver"], [p, out], seed=ctx.seed)
    with open(out) as f:
        recs = [json.loads(l) for l in f if l.strip() and json.loads(l)["m"] != "nobase"]
    flags = {"dangling": True, "v6branch": True}
    cfg = trace_cfg(d, flags, "Trace_self.cfg")

    def validate(rs, name):
        tp = ctx.path("self_trace_%s.ndjson" % name)
        write_trace(tp, rs)
        ok, n, detail, r = lib.tlc_validate(ctx, d, "Trace_Codec", cfg, tp, timeout=900)
        return ok, n, detail

    ok, n, detail = validate(recs, "good")
    if not ok:
        raise lib.ToolError("selftest: the uncorrupted trace is rejected at %d: %s" % (n, detail[:300]))

    def first(pred, start=0):
        for i in range(start, len(recs)):
            if pred(recs[i]):
                return i
        raise lib.ToolError("selftest: no record to corrupt")

    acc = dict(out="acc", wrote=True, reser_eq=True, reparse="same", same_as_base=False, pv="v5", pb="Nu5")
    corruptions = [
        ("truncation accepted", first(lambda e: e["m"] == "trunc" and e["len"] > 20, 30),
         lambda e: dict(e, consumed=e["len"], reser_len=e["len"], **acc)),
        ("non-minimal count accepted", first(lambda e: e["m"] == "noncanon3"), lambda e: dict(e, consumed=e["len"], reser_len=e["len"], **acc)),
        ("out-of-range amount accepted", first(lambda e: e["m"] == "amt_max1"), lambda e: dict(e, consumed=e["len"], reser_len=e["len"], **acc)),
        ("undefined branch id accepted", first(lambda e: e["m"] == "branch_bit"), lambda e: dict(e, consumed=e["len"], reser_len=e["len"], **acc)),
        ("panic", first(lambda e: e["m"] == "flip" and e["out"] == "rej"), lambda e: dict(e, out="panic")),
        ("second representation accepted", first(lambda e: e["m"] == "flip" and e["out"] == "acc"), lambda e: dict(e, reser_eq=False)),
        ("re-serialisation parses differently", first(lambda e: e["m"] == "flip" and e["out"] == "acc", 200), lambda e: dict(e, reparse="diff")),
        ("over-read", first(lambda e: e["m"] == "extend"), lambda e: dict(e, consumed=e["len"])),
        ("consumed beyond the input", first(lambda e: e["m"] == "flip" and e["out"] == "acc", 400), lambda e: dict(e, consumed=e["len"] + 1)),
        ("valid encoding rejected", first(lambda e: e["m"] == "id", 100), lambda e: dict(e, out="rej")),
        ("unwritable value accepted", first(lambda e: e["m"] == "flip" and e["out"] == "acc", 600), lambda e: dict(e, wrote=False, reparse="-")),
        ("mutation not of the specification", first(lambda e: e["m"] == "noncanon3", 300), lambda e: dict(e, mb=[253, 0, 1])),
    ]
    for name, i, f in corruptions:
        mutated = list(recs)
        mutated[i] = f(recs[i])
        ok, n, detail = validate(mutated, "bad")
        if ok or n != i + 1:
            raise lib.ToolError("selftest: corruption '%s' of record %d not rejected there (verdict %s at %s)" % (name, i + 1, ok, n))
        lib.log("selftest ok: corruption '%s' rejected at record %d" % (name, n))
    # the tolerated classes are tolerated only when switched on
    cfg = trace_cfg(d, {"dangling": False, "v6branch": False}, "Trace_self.cfg")
    for name, pred in (("dangling balance", is_dangling), ("v6 old branch", is_v6branch)):
        idx = [i for i, e in enumerate(recs) if pred(e)]
        if idx:
            ok, n, detail = validate(recs[: idx[0] + 1], "strict")
            if ok or n != idx[0] + 1:
                raise lib.ToolError("selftest: %s record accepted although the known finding is switched off" % name)
            lib.log("selftest ok: %s class is a violation when not listed as known finding" % name)
    # a dropped record
    tp = ctx.path("self_trace_dropped.ndjson")
    write_trace(tp, recs)
    lines = open(tp).read().splitlines()
    k = len(lines) // 2
    with open(tp, "w") as f:
        f.write("\n".join(lines[:k] + lines[k + 1:]) + "\n")
    ok, n, detail, r = lib.tlc_validate(ctx, d, "Trace_Codec", trace_cfg(d, flags, "Trace_self.cfg"), tp, timeout=900)
    if ok:
        raise lib.ToolError("selftest: dropped record not noticed")
    lib.log("selftest ok: dropped record noticed at the end marker")

    # specification perturbations are refuted by TLC
    def perturbed(module, old, new, run_module, cfg_text, what, workers=4):
        src = open(os.path.join(d, module + ".tla")).read()
        if old not in src:
            raise lib.ToolError("selftest: perturbation anchor for '%s' not found" % what)
        pd = ctx.path("spec_perturbed")
        os.makedirs(pd, exist_ok=True)
        for f in os.listdir(d):
            if f.endswith(".tla") or f.endswith(".cfg"):
                with open(os.path.join(d, f)) as a, open(os.path.join(pd, f), "w") as b:
                    b.write(a.read())
        with open(os.path.join(pd, module + ".tla"), "w") as f:
            f.write(src.replace(old, new))
        with open(os.path.join(pd, "P.cfg"), "w") as f:
            f.write(cfg_text)
        r2 = lib.tlc(ctx, pd, run_module, "P.cfg", workers=workers, timeout=900, expect_ok=False, coverage=False, xss="256m")
        if r2.ok:
            raise lib.ToolError("selftest: TLC accepts the specification with a perturbed %s" % what)
        if not (r2.invariant or "Assumption" in r2.out or "is false" in r2.out):
            raise lib.ToolError("selftest: TLC failed on the perturbed %s for an unrelated reason" % what)
        lib.log("selftest ok: perturbed %s refuted by TLC" % what)

    cs4 = open(os.path.join(d, "MC_CompactSize4.cfg")).read()
    perturbed("CompactSize", "IF (w = 2 /\\ Fits1(v)) \\/ (w = 4 /\\ Fits2(v))", "IF (w = 4 /\\ Fits2(v))", "MC_CompactSize4", cs4,
              "canonicity rule of the 3-byte class", workers=8)
    perturbed("CompactSize", "Fits1(v) == ZeroFrom(v, 2) /\\ v[1] < TagW2", "Fits1(v) == ZeroFrom(v, 2) /\\ v[1] <= TagW2", "MC_CompactSize4", cs4,
              "class boundary 252/253", workers=8)
    txcfg = open(os.path.join(d, "MC_self.cfg")).read().replace("Emit = TRUE", "Emit = FALSE")
    perturbed("TxLayout", 'I({ "nSp" }, << F("sapling.anchor", 32) >>)', 'I({ "nAct" }, << F("sapling.anchor", 32) >>)', "MC_self", txcfg,
              "condition of the shared Sapling anchor")
    perturbed("TxLayout", 'IF Has(ts, st, 2) /\\ ts[st.pos].k = "c" /\\ ts[st.pos + 1].k = "f" /\\ ts[st.pos + 1].len = ts[st.pos].v',
              'IF Has(ts, st, 2) /\\ ts[st.pos].k = "c" /\\ ts[st.pos + 1].k = "f" /\\ ts[st.pos + 1].len = ts[st.pos].v + 1', "MC_self", txcfg,
              "length-prefixed byte strings")
    lib.log("selftest ok: %d replay perturbations, %d trace corruptions, 4 specification perturbations" % (10, len(corruptions)))
