"""C09 — monetary amounts (Zatoshis / ZatBalance) never leave the valid range or wrap.

1. TLC checks DecInt (the big-number library of the specification) against native arithmetic
   (MC_DecInt), and the theorems of spec/Amounts on the native tiny instance (MC_Amounts: MAX_MONEY = 5,
   u64 = 0..63, i64 = -32..31): totality, closure, exactness, inverse laws, sums, uniqueness of checked
   quotients, encode/decode round trip / canonicity / rejection.
2. TLC prints the operation table and the boundary lattice of the specification at the real constants
   (Emit_Amounts); the driver `c09_driver` evaluates every public constructor / parser / conversion /
   operator of value.rs on every lattice tuple and on VERIF_SEED-seeded random tuples (each call under
   catch_unwind) and logs operands and outcome.
   Long sums (`*.sum_rep`, `*.isum_rep`, `*.isum_ref_rep`, `*.rep_then`: an iterator of up to 20 000 equal
   summands, logged compactly as amount + number of copies) carry the exact total past i64::MAX and
   u64::MAX; the run is vacuous unless every such operation was evaluated beyond both machine words.
3. TLC validates every record against Amounts!Spec evaluated over DecInt at the real constants
   (Trace_Amounts): the outcome must be exactly the specified one (error values by class).
"""
import json
import os
import re

from . import lib

AREA = "Amounts"
MODULES = ["DecInt", "MC_DecInt", "Amounts", "MC_Amounts", "RealAmounts", "Emit_Amounts", "Trace_Amounts"]
I64MIN, I64MAX, U64MAX, MAXM = -(1 << 63), (1 << 63) - 1, (1 << 64) - 1, 2100000000000000
REPMAX = 20000          # longest long sum (RealAmounts!RREPMAX, compared in emit_lattice)
MIN_BEYOND_WORD = 10    # vacuity guard: long-sum cases per operation and machine-word boundary
MIN_WRAP_TARGETS = 3    # ... of which the total reduced modulo 2^64 is a valid amount (the lattice alone has 3 / 6)
MAX_REPORTED = 3
NUMERAL = re.compile(r"^(0|-?[1-9][0-9]*)$")

# value.rs items deliberately not judged (predicates, accessors used only to observe, formatting)
NOT_JUDGED = ["ZatBalance::is_positive", "ZatBalance::is_negative", "Zatoshis::is_zero", "Zatoshis::is_positive",
              "QuotRem::quotient/remainder (used to observe div_with_remainder)", "derive(PartialOrd, Ord, Eq)",
              "Display for BalanceError", "From<Infallible> for BalanceError"]


def build():
    return os.path.join(lib.cargo_build("h_core", ["c09_driver"]), "c09_driver")


def stage(ctx):
    d = lib.stage_specs(ctx, AREA)
    for m in MODULES:
        lib.sany(os.path.join(d, m + ".tla"))
    return d


def model_check(ctx, d):
    """(1) the specification alone."""
    r_dense = 120 if ctx.quick() else 400
    with open(os.path.join(d, "MC_DecInt_run.cfg"), "w") as f:
        f.write("SPECIFICATION Spec\nCONSTANTS\n  R = %d\nINVARIANT Agree\nCHECK_DEADLOCK FALSE\n" % r_dense)
    r = lib.tlc(ctx, d, "MC_DecInt", "MC_DecInt_run.cfg", workers=8, timeout=1500)
    lib.require_coverage(r, ["Pair"])
    lib.account_tlc(ctx, r)
    seqlen = 3 if ctx.quick() else 4
    with open(os.path.join(d, "MC_Amounts_run.cfg"), "w") as f:
        f.write("SPECIFICATION Spec\nCONSTANTS\n  SeqLen = %d\nINVARIANT Theorems\nCHECK_DEADLOCK FALSE\n" % seqlen)
    r = lib.tlc(ctx, d, "MC_Amounts", "MC_Amounts_run.cfg", workers=8, timeout=1500)
    lib.require_coverage(r, ["Eval"])
    cases = r.prints("CASES")
    if not cases:
        raise lib.ToolError("MC_Amounts did not print its case table")
    expected = sum(cases[0].values()) + len(cases[0])
    if r.distinct != expected:
        raise lib.ToolError("vacuity: MC_Amounts explored %d states, its case table has %d" % (r.distinct, expected))
    if any(v == 0 for v in cases[0].values()):
        raise lib.ToolError("vacuity: an operation family of MC_Amounts has no case")
    lib.account_tlc(ctx, r)
    ctx.extra["theorem_cases_native_instance"] = sum(cases[0].values())
    return cases[0]


def emit_lattice(ctx, d):
    """(2a) operation table + boundary lattice, printed by TLC from the specification."""
    r = lib.tlc(ctx, d, "Emit_Amounts", "Emit_Amounts.cfg", workers=1, timeout=300, coverage=False, xss="512m")
    sigs, lat, consts = r.prints("SIGS"), r.prints("LAT"), r.prints("CONSTS")
    if not (sigs and lat and consts):
        raise lib.ToolError("Emit_Amounts printed no operation table / lattice")
    c = consts[0]
    if (int(c["maxm"]), int(c["i64max"]), int(c["i64min"]), int(c["u64max"]), int(c["repmax"])) \
            != (MAXM, I64MAX, I64MIN, U64MAX, REPMAX):
        raise lib.ToolError("constants of RealAmounts differ from those assumed by the input validation")
    spec = {"sigs": sigs[0], "lat": lat[0]}
    path = ctx.path("lattice.json")
    with open(path, "w") as f:
        json.dump(spec, f)
    return spec, path


def drive(ctx, driver, lattice_path, out, n_random, seed=None):
    p = lib.run_bin(driver, ["gen", lattice_path, out, str(n_random)],
                    env_extra={"VERIF_SEED": str(ctx.seed if seed is None else seed)}, timeout=600)
    return json.loads(p.stdout.strip().splitlines()[-1])


def read_trace(path):
    with open(path) as f:
        return [json.loads(l) for l in f if l.strip()]


def write_trace(path, recs):
    """recs without end marker; appends a fresh one."""
    with open(path, "w") as f:
        for e in recs:
            f.write(json.dumps(e) + "\n")
        f.write(json.dumps({"op": "end", "a": [str(len(recs))], "b": [], "r": [], "ob": []}) + "\n")


def in_type(t, s):
    if t in ("oZ", "oB") and s == "none":
        return True
    if not isinstance(s, str) or not NUMERAL.match(s):
        return False
    v = int(s)
    return {"i64": I64MIN <= v <= I64MAX, "u64": 0 <= v <= U64MAX, "mul": 0 <= v <= U64MAX,
            "pat": 0 <= v <= U64MAX, "nz64": 1 <= v <= U64MAX, "Z": 0 <= v <= MAXM, "oZ": 0 <= v <= MAXM,
            "B": -MAXM <= v <= MAXM, "oB": -MAXM <= v <= MAXM, "rep": 0 <= v <= REPMAX}[t]


def validate_inputs(spec, recs):
    """Well-formedness of what the *harness* produced (arguments only, never outcomes): a malformed
    record is a tool error, not a violation."""
    for i, e in enumerate(recs):
        if sorted(e.keys()) != ["a", "b", "ob", "op", "r"] or e["op"] not in spec["sigs"]:
            raise lib.ToolError("malformed trace record %d: %s" % (i + 1, json.dumps(e)[:300]))
        sig = spec["sigs"][e["op"]]["sig"]
        ok = all(isinstance(x, int) and 0 <= x <= 255 for x in e["b"] + e["ob"]) and \
            all(isinstance(x, str) for x in e["r"]) and len(e["r"]) >= 1
        if sig in (["seqZ"], ["seqB"]):
            ok = ok and all(in_type(sig[0][3], x) for x in e["a"]) and not e["b"]
        elif sig == ["raw"]:
            ok = ok and e["a"] == []
        else:
            ok = ok and len(e["a"]) == len(sig) and all(in_type(t, x) for t, x in zip(sig, e["a"]))
            if sig == ["pat"]:
                ok = ok and len(e["b"]) == 8 and int.from_bytes(bytes(e["b"]), "little") == int(e["a"][0])
            else:
                ok = ok and not e["b"]
        if not ok:
            raise lib.ToolError("ill-typed arguments in trace record %d: %s" % (i + 1, json.dumps(e)[:300]))


def check_completeness(spec, summary, n_random):
    """Vacuity guard: every operation of the specification was evaluated on every lattice tuple."""
    for op, ent in spec["sigs"].items():
        n = 1
        for t in ent["sig"]:
            n *= len(spec["lat"][t])
        want = n + (n_random if ent["sig"] else 0)
        got = summary["per_op"].get(op, 0)
        if got != want:
            raise lib.ToolError("vacuity: %s evaluated on %d tuples, the specification's lattice asks for %d"
                                % (op, got, want))


def check_long_sums(spec, recs):
    """Vacuity guard for the long sums: for every operation with a "rep" argument the trace must contain
    cases whose exact total of the equal summands (copies * amount -- a classification of the *inputs*, no
    outcome is looked at) lies beyond i64::MAX and beyond u64::MAX; for signed amounts in both directions."""
    counts = {}
    for op, ent in spec["sigs"].items():
        if "rep" not in ent["sig"]:
            continue
        if ent["sig"][:2] not in (["Z", "rep"], ["B", "rep"]):
            raise lib.ToolError("long-sum operation %s has an unexpected signature %s" % (op, ent["sig"]))
        c = {"total>i64max": 0, "total>u64max": 0, "wraps_into_range": 0}
        if ent["sig"][0] == "B":
            c.update({"total<i64min": 0, "total<-u64max": 0})
        counts[op] = c
    for e in recs:
        c = counts.get(e["op"])
        if c is None:
            continue
        t = int(e["a"][0]) * int(e["a"][1])
        c["total>i64max"] += t > I64MAX
        c["total>u64max"] += t > U64MAX
        if "total<i64min" in c:
            c["total<i64min"] += t < I64MIN
            c["total<-u64max"] += t < -U64MAX
        w = t % (1 << 64)
        c["wraps_into_range"] += (t > U64MAX or t < I64MIN or (t > I64MAX and "total<i64min" in c)) \
            and (w <= MAXM or ("total<i64min" in c and (1 << 64) - w <= MAXM))
    for op, c in counts.items():
        for k, n in c.items():
            need = MIN_WRAP_TARGETS if k == "wraps_into_range" else MIN_BEYOND_WORD
            if n < need:
                raise lib.ToolError("vacuity: long sum %s evaluated on %d cases with %s, at least %d are required"
                                    % (op, n, k, need))
    if not counts:
        raise lib.ToolError("vacuity: the specification has no long-sum operation")
    return counts


def outcome_class(e):
    r = e["r"][0]
    return "val" if NUMERAL.match(r) else r.split(":")[0]


def check_classes(spec, recs, strict=True):
    classes = {}
    for e in recs:
        classes.setdefault(e["op"], set()).add(outcome_class(e))
    for op, ent in spec["sigs"].items():
        if strict and ent["mode"] in ("opt", "res", "assert", "io", "lift", "fold", "readn", "foldrep") \
                and len(classes.get(op, ())) < 2:
            raise lib.ToolError("vacuity: fallible operation %s showed only outcomes %s" % (op, classes.get(op)))
    return classes


def validate(ctx, d, trace_path, cfg="Trace_Amounts.cfg"):
    ok, n, detail, r = lib.tlc_validate(ctx, d, "Trace_Amounts", cfg, trace_path, timeout=2400)
    lib.account_tlc(ctx, r)
    return ok, n, detail


def describe(e, detail):
    m = re.search(r'"expected", (".*")$', detail or "")
    exp = ""
    if m:
        try:
            exp = " — specification allows " + json.dumps(json.loads(json.loads(m.group(1))))
        except ValueError:
            exp = ""
    args = ", ".join(e["a"]) if e["a"] else ("bytes " + bytes(e["b"]).hex() if e["b"] else "")
    out = ", ".join(e["r"]) + ((" " + bytes(e["ob"]).hex()) if e["ob"] else "")
    return "%s(%s) returned %s%s" % (e["op"], args, out, exp)


def judge(ctx, d, recs, tag):
    """Validates the records; every rejected record is a violation (the first MAX_REPORTED are reported,
    each with its own replay file). Returns the number of records accepted."""
    recs = list(recs)
    reported = 0
    while True:
        path = ctx.path("trace_%s_%d.ndjson" % (tag, reported))
        write_trace(path, recs)
        ok, n, detail = validate(ctx, d, path)
        if ok:
            return len(recs)
        if n < 1 or n > len(recs):
            raise lib.ToolError("trace rejected at its end marker (%s)" % detail[:300])
        bad = recs[n - 1]
        lib.violation(ctx, {"property": "C09", "kind": "amount_operation",
                            "records": [{"op": bad["op"], "a": bad["a"], "b": bad["b"]}],
                            "observed": {"r": bad["r"], "ob": bad["ob"]}},
                      "the real code disagrees with spec/Amounts: " + describe(bad, detail))
        reported += 1
        del recs[n - 1]
        if reported >= MAX_REPORTED:
            return len(recs)


def spurious_none(recs):
    return [e for e in recs if e["op"] == "B.mul_usize" and e["a"][0] == "0" and int(e["a"][1]) > I64MAX
            and e["r"] == ["none"]]


def api_surface(ctx):
    """Informational: public items of value.rs (so that a grown API is noticed in the evidence)."""
    try:
        with open(os.path.join(lib.HARNESS, "h_core", "Cargo.toml")) as f:
            m = re.search(r'zcash_protocol = \{ path = "([^"]+)"', f.read())
        with open(os.path.join(m.group(1), "src", "value.rs")) as f:
            src = f.read().split("pub mod testing")[0]
        fns = re.findall(r"^\s*pub (?:const )?(?:\(crate\) )?fn (\w+)", src, re.M)
        impls = re.findall(r"^impl(?:<[^>]*>)? ([\w<>&' ]+ for [\w<>&' ]+) \{", src, re.M)
        ctx.extra["value_rs_public_fns"] = len(fns)
        ctx.extra["value_rs_trait_impls"] = len(impls)
    except Exception as e:  # informational only
        ctx.extra["value_rs_scan_error"] = str(e)[:200]
    ctx.extra["not_judged"] = NOT_JUDGED


def run(ctx):
    driver = build()
    d = stage(ctx)
    model_check(ctx, d)
    spec, lattice_path = emit_lattice(ctx, d)
    n_random = 180 if ctx.quick() else 2500
    raw = ctx.path("driver.ndjson")
    summary = drive(ctx, driver, lattice_path, raw, n_random)
    recs = read_trace(raw)
    if not recs or recs[-1]["op"] != "end" or int(recs[-1]["a"][0]) != len(recs) - 1 \
            or summary["records"] != len(recs) - 1:
        raise lib.ToolError("driver trace is incomplete")
    recs = recs[:-1]
    validate_inputs(spec, recs)
    long_sums = None
    if summary["skipped"] == 0:
        check_completeness(spec, summary, n_random)
        long_sums = check_long_sums(spec, recs)
    else:
        lib.log("note: %d calls skipped because an in-range operand could not be constructed" % summary["skipped"])
    accepted = judge(ctx, d, recs, "run")
    if summary["skipped"] and not ctx.violations:
        raise lib.ToolError("operands could not be constructed although every constructor record was accepted")
    # vacuity guard on the outcome classes -- only meaningful once every outcome is the specified one
    classes = check_classes(spec, recs, strict=not ctx.violations)
    # ZatBalance(0) * (usize > i64::MAX) = None was a genuine defect of the pinned tree; it is repaired
    # (known_findings.json: fixed) and the specification no longer tolerates it (AllowSpuriousNone = FALSE).
    quirk = []
    if not ctx.quick() and not ctx.violations:
        # informational: do the Err kinds follow the rustdoc convention (below => Underflow, above => Overflow)?
        p = ctx.path("trace_strictkinds.ndjson")
        write_trace(p, [e for e in recs if e not in quirk])
        ok, n, detail = validate(ctx, d, p, cfg="Trace_Amounts_strict.cfg")
        ctx.extra["error_kinds_follow_convention"] = bool(ok)
        if not ok:
            lib.log("note (not part of the property): error kind differs from the convention: %s" % detail[:300])
    ctx.traces = accepted
    if long_sums is not None:
        ctx.extra["long_sum_cases_beyond_machine_word"] = long_sums
    for op in ("Z.add", "B.from_i64_le_bytes", "Z.mul_u64", "B.isum", "Z.isum_rep", "Z.const_from_u64"):
        for e in recs:
            if e["op"] == op and outcome_class(e) != "val":
                ctx.add_sample({k: e[k] for k in ("op", "a", "r")})
                break
    api_surface(ctx)
    ctx.extra["operations"] = len(spec["sigs"])
    ctx.extra["lattice_tuples"] = summary["lattice_tuples"]
    ctx.extra["random_tuples_per_operation"] = n_random
    ctx.extra["outcome_classes"] = {op: sorted(c) for op, c in sorted(classes.items())}
    distinct = len({(e["op"], tuple(e["a"]), tuple(e["b"])) for e in recs if e["a"] or e["b"]})
    ctx.extra["distinct_failure_cases"] = len({(e["op"], tuple(e["a"]), tuple(e["b"])) for e in recs
                                               if outcome_class(e) in ("none", "err", "panic")})
    lib.mc_evidence(
        ctx,
        rule="every record = one call of a public Zatoshis/ZatBalance operation on the real code (all tuples of the "
             "specification's boundary lattice for each of the %d operations + seeded random tuples), validated by TLC "
             "against Amounts!Spec over DecInt at the real constants; distinct_nontrivial = distinct (operation, "
             "arguments) tuples with at least one argument (the two nullary constants are the trivial cases); "
             "states/transitions also count the exhaustive native-instance theorems (MC_Amounts) "
             "and the DecInt-vs-native check (MC_DecInt)" % len(spec["sigs"]),
        evaluations=len(recs), distinct_nontrivial=distinct,
        extra={"exhaustive": False},
        assumptions=["64-bit target: usize multipliers are taken from the u64 range",
                     "error values are compared by class (Err vs Ok), the kind only informationally (thorough tier)",
                     "iterator sums are specified as the left fold of the checked addition: a running sum leaving the "
                     "range yields None even if the total would be in range",
                     "long iterator sums are driven as up to %d equal summands (optionally followed by one more): "
                     "Some(copies * amount) iff that exact total is a valid amount, None otherwise, also when the total "
                     "exceeds i64::MAX / u64::MAX; sums of many *different* large summands are not driven" % REPMAX,
                     "amount operands are built with from_u64 / from_i64 and observed with into_u64 / i64::from",
                     "ZatBalance(0) * (usize > i64::MAX) = None was repaired in /repo (known_findings.json: fixed); the specification no longer tolerates it"])


def replay(ctx, path):
    driver = build()
    d = stage(ctx)
    with open(path) as f:
        rep = json.load(f)
    src = ctx.path("replay_in.ndjson")
    with open(src, "w") as f:
        for e in rep["records"]:
            f.write(json.dumps({"op": e["op"], "a": e["a"], "b": e["b"], "r": [], "ob": []}) + "\n")
    out = ctx.path("replay_out.ndjson")
    p = lib.run_bin(driver, ["eval", src, out, "0"], timeout=300)
    summary = json.loads(p.stdout.strip().splitlines()[-1])
    recs = read_trace(out)[:-1]
    if summary["skipped"] or len(recs) != len(rep["records"]):
        raise lib.ToolError("replay: an operand of the recorded call can no longer be constructed")
    spec, _ = emit_lattice(ctx, d)
    validate_inputs(spec, recs)
    judge(ctx, d, recs, "replay")
    if not ctx.violations:
        lib.log("replay: the recorded call now agrees with the specification: %s" % json.dumps(recs)[:400])


def selftest(ctx):
    """Binding demonstration: a fresh trace is accepted; one corrupted outcome is rejected at its index (for a
    value, a None, an error, a panic, a byte string, a quotient); a dropped record and a cut trace are rejected."""
    driver = build()
    d = stage(ctx)
    spec, lattice_path = emit_lattice(ctx, d)
    raw = ctx.path("self.ndjson")
    drive(ctx, driver, lattice_path, raw, 5)
    recs = read_trace(raw)[:-1]
    validate_inputs(spec, recs)
    good = ctx.path("self_good.ndjson")
    write_trace(good, recs)
    ok, n, detail = validate(ctx, d, good)
    if not ok:
        raise lib.ToolError("selftest: the uncorrupted trace is rejected at %d: %s" % (n, detail[:300]))

    def first(pred, start=0):
        for i in range(start, len(recs)):
            if pred(recs[i]):
                return i
        raise lib.ToolError("selftest: no record to corrupt")

    def bump(s):
        return str(int(s) + 1)

    corruptions = [
        ("value+1", first(lambda e: e["op"] == "Z.add" and outcome_class(e) == "val", 50),
         lambda e: dict(e, r=[bump(e["r"][0])])),
        ("none->value", first(lambda e: e["op"] == "B.sub" and e["r"] == ["none"]),
         lambda e: dict(e, r=[str(int(e["a"][0]) - int(e["a"][1]))])),
        ("value->none", first(lambda e: e["op"] == "Z.mul_u64" and outcome_class(e) == "val"),
         lambda e: dict(e, r=["none"])),
        ("err->value", first(lambda e: e["op"] == "B.from_i64" and outcome_class(e) == "err"),
         lambda e: dict(e, r=[e["a"][0]])),
        ("panic->value", first(lambda e: e["op"] == "Z.const_from_u64" and e["r"] == ["panic"]),
         lambda e: dict(e, r=[e["a"][0]])),
        ("value->panic", first(lambda e: e["op"] == "B.neg"), lambda e: dict(e, r=["panic"])),
        ("byte flipped", first(lambda e: e["op"] == "Z.to_u64_le_bytes" and int(e["a"][0]) > 300),
         lambda e: dict(e, ob=[e["ob"][0] ^ 1] + e["ob"][1:])),
        ("quotient+1", first(lambda e: e["op"] == "Z.div"), lambda e: dict(e, r=[bump(e["r"][0])])),
        ("remainder+divisor", first(lambda e: e["op"] == "Z.div_with_remainder" and int(e["r"][0]) > 0),
         lambda e: dict(e, r=[str(int(e["r"][0]) - 1), str(int(e["r"][1]) + int(e["a"][1]))])),
        ("decoder accepts out-of-range", first(lambda e: e["op"] == "Z.from_nonnegative_i64_le_bytes"
                                               and outcome_class(e) == "err"),
         lambda e: dict(e, r=["0"])),
        ("long sum: none -> total wrapped modulo 2^64",
         first(lambda e: e["op"] == "Z.isum_rep" and e["r"] == ["none"]
               and int(e["a"][0]) * int(e["a"][1]) > U64MAX and (int(e["a"][0]) * int(e["a"][1])) % (1 << 64) <= MAXM),
         lambda e: dict(e, r=[str((int(e["a"][0]) * int(e["a"][1])) % (1 << 64))])),
        ("long sum: none -> panic", first(lambda e: e["op"] == "B.isum_ref_rep" and e["r"] == ["none"]
                                           and abs(int(e["a"][0]) * int(e["a"][1])) > I64MAX),
         lambda e: dict(e, r=["panic"])),
        ("long sum: value -> none", first(lambda e: e["op"] == "B.sum_rep" and outcome_class(e) == "val"
                                           and int(e["a"][1]) >= 4392),
         lambda e: dict(e, r=["none"])),
        ("long sum then one more: none -> total wrapped modulo 2^64",
         first(lambda e: e["op"] == "B.isum_rep_then" and e["r"] == ["none"] and e["a"][:2] == [str(MAXM), "8785"]
               and e["a"][2] == "1"),
         lambda e: dict(e, r=[str((MAXM * 8785 + 1) % (1 << 64))])),
        ("sum wrong", first(lambda e: e["op"] == "B.isum" and outcome_class(e) == "val" and len(e["a"]) == 3),
         lambda e: dict(e, r=[bump(e["r"][0])])),
    ]
    for name, i, f in corruptions:
        mutated = list(recs)
        mutated[i] = f(recs[i])
        p = ctx.path("self_bad.ndjson")
        write_trace(p, mutated)
        ok, n, detail = validate(ctx, d, p)
        if ok or n != i + 1:
            raise lib.ToolError("selftest: corruption '%s' of record %d not rejected there (verdict %s at %s)"
                                % (name, i + 1, ok, n))
        lib.log("selftest: corruption '%s' rejected at record %d" % (name, n))
    # a dropped record (end marker still announcing the original count) and a cut trace
    p = ctx.path("self_dropped.ndjson")
    write_trace(p, recs)
    lines = open(p).read().splitlines()
    k = len(lines) // 2
    with open(p, "w") as f:
        f.write("\n".join(lines[:k] + lines[k + 1:]) + "\n")
    ok, n, detail = validate(ctx, d, p)
    if ok or n != len(lines) - 1:
        raise lib.ToolError("selftest: dropped record not noticed at the end marker (verdict %s at %s)" % (ok, n))
    with open(p, "w") as f:
        f.write("\n".join(lines[:k]) + "\n")
    ok, n, detail = validate(ctx, d, p)
    if ok:
        raise lib.ToolError("selftest: cut trace accepted")
    lib.log("selftest ok: %d records accepted, %d corruptions each rejected at their index, dropped/cut trace rejected"
            % (len(recs), len(corruptions)))
