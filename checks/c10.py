"""C10 - address strings: parsing and encoding are inverse and enforce ZIP 316.

1. TLC checks the specification alone: the theorems of spec/Address/Zip316.tla on every unified
   container of at most 3 (thorough: 4) items over 7 typecode classes x {right, wrong length} x both
   paddings x 3 container kinds; the theorems of AddressDispatch.tla (parse . encode = id up to the
   documented testnet/regtest prefix sharing, accepted => canonical, injectivity, whitespace, network
   conversion) on every abstract string class; Feistel.tla (the 4-round network is a length-preserving
   bijection with the backwards network as inverse) for EVERY choice of round functions on 1+1 and
   1+2 bit halves, plus the length rules of ZIP 316.
2. R (spec -> code): TLC prints every container of at most 4 items with the specification's verdict,
   every abstract string class with the specified parse, the value table and the network-conversion
   table; harness/h_core/src/bin/c10_replay.rs materialises each one from RAW BYTES (own ZIP 316 raw
   encoding, own BLAKE2b F4Jumble reference, own prefixes / HRPs) on all three networks and compares
   `unified::{Address,Ufvk,Uivk}::decode`, `ZcashAddress::try_from_encoded`, `encode`,
   `try_from_items`, `convert_if_network` with the prediction (verdict; on accept: items / bytes,
   network, re-encoding).
3. V (code -> spec): c10_driver.rs runs seeded values of the crate's proptest strategies, strings of
   known classes derived from them, random character edits, byte-level mutated containers (abstracted
   by the harness' own decoder), sizes at both ends of the F4Jumble domain, and f4jumble itself against
   the reference on every length class; TLC validates every record against Zip316 / AddressDispatch
   (Trace_Address.tla).  A panic is a recorded outcome and never allowed.
"""
import json
import os

from . import lib

AREA = "Address"
MODULES = ["Zip316", "MC_Zip316", "AddressDispatch", "MC_AddressDispatch", "Feistel", "Trace_Address"]
MAX_REPORTED = 3
OPS = ("rt", "str", "fuzz", "uc", "jumble", "cin")
B58 = ("sprout", "p2pkh", "p2sh")


def build():
    d = lib.cargo_build("h_core", ["c10_replay", "c10_driver"])
    return os.path.join(d, "c10_replay"), os.path.join(d, "c10_driver")


def stage(ctx):
    d = lib.stage_specs(ctx, AREA)
    for m in MODULES:
        lib.sany(os.path.join(d, m + ".tla"))
    return d


def write(path, text):
    with open(path, "w") as f:
        f.write(text)


# ------------------------------------------------------------------------------------------------
# (1) the specification alone, and (2a) emission of the cases

def mc_zip316(ctx, d, maxlen):
    write(os.path.join(d, "MC_Zip316_th.cfg"),
          "SPECIFICATION Spec\nCONSTANTS\n  MaxLen = %d\n  Emit = FALSE\nINVARIANTS TheoremsHold OwnKindOnly\n"
          "CHECK_DEADLOCK FALSE\n" % maxlen)
    r = lib.tlc(ctx, d, "MC_Zip316", "MC_Zip316_th.cfg", workers=8, timeout=1500)
    lib.require_coverage(r, ["Eval"])
    t = r.prints("TABLE")
    if not t or r.distinct != 2 * t[0]["cases"] or t[0]["accepted"] < 1:
        raise lib.ToolError("vacuity: MC_Zip316 theorem run explored %d states for %s" % (r.distinct, t))
    lib.account_tlc(ctx, r)
    ctx.extra["zip316_theorem_containers"] = t[0]["cases"]


def emit_zip316(ctx, d, maxlen):
    write(os.path.join(d, "MC_Zip316_emit.cfg"),
          "SPECIFICATION Spec\nCONSTANTS\n  MaxLen = %d\n  Emit = TRUE\nCHECK_DEADLOCK FALSE\n" % maxlen)
    r = lib.tlc(ctx, d, "MC_Zip316", "MC_Zip316_emit.cfg", workers=1, timeout=1500, coverage=False)
    table = r.prints("TABLE")
    cases = r.prints("UC")
    if not table or len(cases) != table[0]["cases"] or sum(1 for c in cases if c["acc"]) != table[0]["accepted"] \
            or table[0]["accepted"] < 1:
        raise lib.ToolError("MC_Zip316 printed %d cases, its table says %s" % (len(cases), table))
    lib.account_tlc(ctx, r)
    return table[0], cases


def mc_dispatch(ctx, d):
    write(os.path.join(d, "MC_AddressDispatch_emit.cfg"),
          "SPECIFICATION Spec\nCONSTANTS\n  Emit = TRUE\nINVARIANT PerString\nCHECK_DEADLOCK FALSE\n")
    r = lib.tlc(ctx, d, "MC_AddressDispatch", "MC_AddressDispatch_emit.cfg", workers=1, timeout=600)
    lib.require_coverage(r, ["Eval"])
    counts = r.prints("COUNTS")
    strs, vals, cins = r.prints("STR"), r.prints("VAL"), r.prints("CIN")
    if not counts or len(strs) != counts[0]["strings"] or len(vals) != counts[0]["values"] or not cins \
            or sum(1 for s in strs if s["exp"]["acc"]) != counts[0]["accepted"] or counts[0]["accepted"] < 15:
        raise lib.ToolError("MC_AddressDispatch printed %d strings / %d values / %d conversions, counts %s"
                            % (len(strs), len(vals), len(cins), counts))
    lib.account_tlc(ctx, r)
    return strs, vals, cins


def mc_feistel(ctx, d):
    cfgs = [(1, 1, "FALSE"), (1, 2, "FALSE")] + ([] if ctx.quick() else [(2, 2, "TRUE")])
    n = 0
    for lb, rb, same in cfgs:
        cfg = "MC_Feistel_%d_%d.cfg" % (lb, rb)
        write(os.path.join(d, cfg), "SPECIFICATION Spec\nCONSTANTS\n  LBits = %d\n  RBits = %d\n  SameRounds = %s\n"
                                    "INVARIANTS InverseLaw Bijection\nCHECK_DEADLOCK FALSE\n" % (lb, rb, same))
        r = lib.tlc(ctx, d, "Feistel", cfg, workers=8, timeout=1500, coverage=False)
        want = (2 ** (rb * 2 ** lb)) * (2 ** (lb * 2 ** rb))
        want = want if same == "TRUE" else want * want
        if r.distinct != want:
            raise lib.ToolError("vacuity: Feistel %d+%d explored %d of %d round-function choices" % (lb, rb, r.distinct, want))
        lib.account_tlc(ctx, r)
        n += r.distinct
    ctx.extra["feistel_round_function_choices"] = n


# ------------------------------------------------------------------------------------------------
# (2b) replay

def write_cases(path, table, ucs, strs, vals, cins):
    with open(path, "w") as f:
        f.write(json.dumps(dict(table, T="table")) + "\n")
        for tag, lst in (("uc", ucs), ("str", strs), ("val", vals), ("cin", cins)):
            for c in lst:
                f.write(json.dumps(dict(c, T=tag)) + "\n")


def run_replay(ctx, replay_bin, cases_path, seed, reps):
    p = lib.run_bin(replay_bin, [cases_path, str(reps)], env_extra={"VERIF_SEED": str(seed)}, timeout=1500)
    lines = p.stdout.strip().splitlines()
    if not lines:
        raise lib.ToolError("c10_replay printed nothing: %s" % p.stderr[-500:])
    return json.loads(lines[-1])


def describe_mismatch(m):
    c = m["case"]
    if m["T"] == "uc":
        return ("unified container kind=%s items(class*2+lenOK)=%s padding=%s on %s: %s by %s, the specification says %s "
                "(reasons %s); string %s" % (c["k"], c["it"], c["p"], m.get("net"), m["what"], m["decoder"], m["expected"],
                                             m.get("reasons"), m.get("string")))
    if m["T"] == "str":
        return "string class %s: %s, the specification says %s; string %r" % (json.dumps(c["s"], sort_keys=True), m["what"],
                                                                              json.dumps(m["expected"]), m.get("string"))
    if m["T"] == "val":
        return "address value (%s, %s): %s" % (c["kind"], c["net"], m["what"])
    return "parsed address (%s, %s): %s; string %s" % (c["kind"], c["net"], m["what"], m.get("string"))


def strip_case(c):
    return {k: v for k, v in c.items() if k != "T"}


def judge_replay(ctx, res, table, seed, reps):
    seen = set()
    for m in res["mismatches"]:
        key = json.dumps(m["case"], sort_keys=True)
        if key in seen:
            continue            # one report per case (a case is run on three networks and several decoders)
        if len(seen) >= MAX_REPORTED:
            break
        seen.add(key)
        lib.violation(ctx, {"property": "C10", "kind": "replay", "seed": seed, "reps": reps, "table": table,
                            "type": m["T"], "case": strip_case(m["case"])},
                      "the real code disagrees with spec/Address: " + describe_mismatch(m))


# ------------------------------------------------------------------------------------------------
# (3) driver + trace validation

def drive(ctx, driver_bin, out, params, seed):
    p = lib.run_bin(driver_bin, [out] + [str(x) for x in params], env_extra={"VERIF_SEED": str(seed)}, timeout=1500)
    lines = p.stdout.strip().splitlines()
    if not lines:
        raise lib.ToolError("c10_driver printed nothing: %s" % p.stderr[-500:])
    return json.loads(lines[-1])


def read_trace(path):
    with open(path) as f:
        recs = [json.loads(l) for l in f if l.strip()]
    if not recs or recs[-1].get("op") != "end" or recs[-1].get("n") != len(recs) - 1:
        raise lib.ToolError("driver trace %s is incomplete" % path)
    return recs[:-1]


def write_trace(path, recs):
    with open(path, "w") as f:
        for e in recs:
            f.write(json.dumps(e) + "\n")
        f.write(json.dumps({"op": "end", "n": len(recs)}) + "\n")


FIELDS = {
    "rt": ("kind", "net", "out", "okind", "onet", "same", "reenc"),
    "str": ("s", "out", "okind", "onet", "canon", "data"),
    "fuzz": ("out", "canon"),
    "uc": ("dec", "hk", "items", "padding", "size", "struct", "out", "canon", "same", "netok"),
    "jumble": ("n", "err", "inv", "len", "ref", "keep"),
    "cin": ("kind", "net", "want", "ok", "good"),
}


def validate_shape(recs):
    """Well-formedness of what the HARNESS wrote (a malformed record is a tool error, not a violation)."""
    for i, e in enumerate(recs):
        if e.get("op") not in FIELDS or any(k not in e for k in FIELDS[e["op"]]):
            raise lib.ToolError("malformed trace record %d: %s" % (i + 1, json.dumps(e)[:300]))


def validate(ctx, d, path):
    ok, n, detail, r = lib.tlc_validate(ctx, d, "Trace_Address", "Trace_Address.cfg", path, timeout=2400)
    lib.account_tlc(ctx, r)
    return ok, n, detail


def describe_record(e, detail):
    exp = ""
    if '"expected", ' in (detail or ""):
        try:
            exp = " - the specification allows " + json.loads(detail.split('"expected", ', 1)[1])
        except ValueError:
            exp = ""
    shown = {k: v for k, v in e.items() if k != "x"}
    return "%s%s; input %r" % (json.dumps(shown, sort_keys=True)[:900], exp[:600], e.get("x", "")[:300])


def input_part(e):
    """The part of a record that the harness decides (not the code under test)."""
    keys = {"rt": ("kind", "net"), "str": ("s",), "fuzz": (), "uc": ("dec", "hk", "items", "padding", "size", "struct"),
            "jumble": ("n",), "cin": ("kind", "net", "want")}[e["op"]]
    return {k: e[k] for k in keys + ("op", "x") if k in e}


def judge_trace(ctx, d, recs, tag, seed, params):
    """Every rejected record is a violation (the first MAX_REPORTED are reported). Returns #accepted."""
    idx = list(range(len(recs)))
    recs = list(recs)
    reported = 0
    while True:
        path = ctx.path("trace_%s_%d.ndjson" % (tag, reported))
        write_trace(path, recs)
        ok, n, detail = validate(ctx, d, path)
        if ok:
            return len(recs)
        if n < 1 or n > len(recs):
            raise lib.ToolError("trace rejected at its end marker (%s)" % detail[:300])
        bad = recs[n - 1]
        lib.violation(ctx, {"property": "C10", "kind": "trace", "seed": seed, "params": params, "index": idx[n - 1],
                            "input": input_part(bad), "observed": bad},
                      "the real code disagrees with spec/Address (record %d): %s" % (idx[n - 1] + 1, describe_record(bad, detail)))
        reported += 1
        del recs[n - 1]
        del idx[n - 1]
        if reported >= MAX_REPORTED:
            return len(recs)


def check_trace_classes(recs, summary, big):
    by = {}
    for e in recs:
        by.setdefault(e["op"], []).append(e)
    for op in OPS:
        if not by.get(op):
            raise lib.ToolError("vacuity: the driver produced no '%s' record" % op)

    def need(cond, what):
        if not cond:
            raise lib.ToolError("vacuity: " + what)

    need({(e["kind"], e["net"]) for e in by["rt"]} >= {(k, n) for k in ("sprout", "sapling", "p2pkh", "p2sh", "tex", "unified")
                                                      for n in ("main", "test", "regtest")},
         "the proptest strategies did not produce every kind on every network")
    need(any(e["out"] == "accept" for e in by["str"]) and any(e["out"] == "reject" for e in by["str"]), "'str' records one-sided")
    need(any(e["out"] == "accept" for e in by["fuzz"]), "no edited string was accepted (canonicity never exercised)")
    for dec in ("addr", "fvk", "ivk", "zaddr"):
        need(any(e["out"] == "accept" for e in by["uc"] if e["dec"] == dec), "no container accepted by decoder %s" % dec)
    need(sum(1 for e in by["uc"] if e["out"] == "reject" and e["hk"] == e["dec"]) > 50, "few rejected containers")
    need({"truncated", "noncanonical", "ok"} <= {e["struct"] for e in by["uc"]}, "structure classes missing")
    need(any(e["err"] for e in by["jumble"]) and any(not e["err"] for e in by["jumble"]), "jumble records one-sided")
    sizes = {e["size"] for e in by["uc"]}
    need({47, 48} <= sizes, "the lower end of the jumble domain was not probed")
    if big:
        need({4194368, 4194369} <= sizes, "the upper end of the jumble domain was not probed")
        need(any(e["size"] == 4194368 and e["out"] == "accept" for e in by["uc"]), "no container of the maximal size accepted")
    need(any(e["ok"] for e in by["cin"]) and any(not e["ok"] for e in by["cin"]), "conversion records one-sided")
    return {op: len(v) for op, v in by.items()}


# ------------------------------------------------------------------------------------------------

def run(ctx):
    replay_bin, driver_bin = build()
    d = stage(ctx)

    # (1) the specification alone
    mc_zip316(ctx, d, 3 if ctx.quick() else 4)
    strs, vals, cins = mc_dispatch(ctx, d)
    mc_feistel(ctx, d)

    # (2) spec -> code
    table, ucs = emit_zip316(ctx, d, 4)
    cases_path = ctx.path("cases.ndjson")
    write_cases(cases_path, table, ucs, strs, vals, cins)
    reps = 4 if ctx.quick() else 12
    seeds = [ctx.seed] if ctx.quick() else [ctx.seed, ctx.seed + 1000, ctx.seed + 2000]
    replayed = 0
    totals = {}
    for seed in seeds:
        res = run_replay(ctx, replay_bin, cases_path, seed, reps)
        if res["tables"] != 1 or res["uc_cases"] != len(ucs) or res["str_cases"] != len(strs) * reps \
                or res["val_cases"] != len(vals) * 8 or res["cin_cases"] != len(cins):
            raise lib.ToolError("replay ran %s of %d/%d/%d/%d cases" % ({k: res[k] for k in res if k.endswith("_cases")},
                                                                       len(ucs), len(strs) * reps, len(vals) * 8, len(cins)))
        if res["mismatch_count"] == 0 and (res["uc_accepts"] < 4 * table["accepted"] or res["str_accepts"] < 60 * reps
                                           or res["uc_tfi_accepts"] < 1):
            raise lib.ToolError("vacuity: replay accepted too little: %s" % {k: res[k] for k in ("uc_accepts", "str_accepts")})
        judge_replay(ctx, res, table, seed, reps)
        replayed += res["uc_strings"] + res["uc_tfi"] + res["str_cases"] + res["val_cases"] + res["cin_cases"]
        for k, v in res.items():
            if isinstance(v, int):
                totals[k] = totals.get(k, 0) + v
        lib.log("[replay] seed %d: %d containers -> %d strings x 4 decoders (%d accepted), %d try_from_items, %d strings, "
                "%d values, %d conversions, %d mismatches"
                % (seed, res["uc_cases"], res["uc_strings"], res["uc_accepts"], res["uc_tfi"], res["str_cases"],
                   res["val_cases"], res["cin_cases"], res["mismatch_count"]))

    # (3) code -> spec
    params = [150, 1500, 2500, 1] if ctx.quick() else [1500, 15000, 20000, 1]
    raw = ctx.path("driver.ndjson")
    summary = drive(ctx, driver_bin, raw, params, ctx.seed)
    recs = read_trace(raw)
    if summary["records"] != len(recs):
        raise lib.ToolError("driver trace is incomplete")
    validate_shape(recs)
    accepted = judge_trace(ctx, d, recs, "run", ctx.seed, params)
    if not ctx.violations:
        per_op = check_trace_classes(recs, summary, True)
    else:
        per_op = {}
    ctx.traces = replayed + accepted

    for c in ucs:
        if c["acc"] and len(c["it"]) >= 3:
            ctx.add_sample({"container": c})
            break
    for c in ucs:
        if not c["acc"] and c["rs"] == ["order"]:
            ctx.add_sample({"container": c})
            break
    for s in strs:
        if s["exp"]["acc"] and s["s"]["ws"] == "both":
            ctx.add_sample({"string": s})
            break
    for e in recs:
        if e["op"] == "uc" and e["out"] == "reject" and e["struct"] == "noncanonical":
            ctx.add_sample({k: v for k, v in e.items() if k != "x"})
            break
    for e in recs:
        if e["op"] == "rt" and e["kind"] == "p2pkh" and e["net"] == "regtest":
            ctx.add_sample({k: v for k, v in e.items()})
            break
    ctx.extra["replay"] = totals
    ctx.extra["trace_records"] = per_op
    ctx.extra["driver"] = summary
    ctx.extra["reason_agreement"] = "%d of %d rejections carry an error variant that is one of the specification's reasons " \
                                    "(informational, not judged)" % (totals.get("reason_in_set", 0), totals.get("reason_checked", 0))
    distinct = sum(1 for c in ucs if c["it"]) + sum(1 for s in strs if s["s"]["form"] != "junk") + len(vals) + len(cins) \
        + len({json.dumps(input_part(e), sort_keys=True) for e in recs})
    lib.mc_evidence(
        ctx,
        rule="R: every unified container of <= 4 items over 7 typecode classes x {right, wrong length} x 2 paddings x 3 kinds "
             "(%d, all item orders and duplicates), every abstract string class (%d), every (kind, network) value and "
             "conversion, each materialised from raw bytes on the real decoders / parser / encoder; V: %d driver records "
             "(seeded proptest values, strings of known classes, character edits, byte-mutated containers, jumble-domain "
             "boundaries, f4jumble vs a BLAKE2b reference) validated by TLC against Zip316 / AddressDispatch; "
             "traces_validated_against_impl = strings / constructions replayed + trace records accepted; distinct_nontrivial = "
             "non-empty containers + non-junk string classes + values + conversions + distinct driver inputs; states / "
             "transitions are TLC's counters of the theorem runs (Zip316, AddressDispatch, Feistel over all round functions), "
             "the emission runs and the trace validation" % (len(ucs), len(strs), len(recs)),
        evaluations=replayed + len(recs), distinct_nontrivial=distinct,
        extra={"exhaustive": False},
        assumptions=["Bech32/Bech32m/Base58Check arithmetic of the bech32 and bs58 crates is trusted (used by both sides)",
                     "BLAKE2b of blake2b_simd is trusted; F4Jumble is compared with a reference written from ZIP 316 on top of it",
                     "error values are compared by class (accept / reject); the variant only informationally",
                     "only the Feistel STRUCTURE is model-checked (all round functions over 1+1 and 1+2 bit halves); that the real "
                     "bytes are a bijection is observed on the sampled strings of every length class, not proved",
                     "zcash_keys::address::Address::decode is not bound (crate h_core has no zcash_keys dependency)",
                     "encode() of a container value longer than 4 194 368 bytes (no ZIP 316 encoding exists) is not exercised"])


def replay(ctx, path):
    replay_bin, driver_bin = build()
    d = stage(ctx)
    with open(path) as f:
        rep = json.load(f)
    if rep["kind"] == "replay":
        cases_path = ctx.path("replay_cases.ndjson")
        with open(cases_path, "w") as f:
            f.write(json.dumps(dict(rep["table"], T="table")) + "\n")
            f.write(json.dumps(dict(rep["case"], T=rep["type"])) + "\n")
        res = run_replay(ctx, replay_bin, cases_path, rep["seed"], rep["reps"])
        judge_replay(ctx, res, rep["table"], rep["seed"], rep["reps"])
        if not ctx.violations:
            lib.log("replay: the recorded case now agrees with the specification")
    elif rep["kind"] == "trace":
        raw = ctx.path("replay_driver.ndjson")
        drive(ctx, driver_bin, raw, rep["params"], rep["seed"])
        recs = read_trace(raw)
        validate_shape(recs)
        if rep["index"] >= len(recs) or input_part(recs[rep["index"]]) != rep["input"]:
            raise lib.ToolError("replay: the driver no longer produces the recorded input at record %d" % (rep["index"] + 1))
        one = [recs[rep["index"]]]
        p = ctx.path("trace_replay.ndjson")
        write_trace(p, one)
        ok, n, detail = validate(ctx, d, p)
        if not ok:
            lib.violation(ctx, dict(rep, observed=one[0]),
                          "the real code disagrees with spec/Address (record %d): %s" % (rep["index"] + 1, describe_record(one[0], detail)))
        else:
            lib.log("replay: the recorded input now agrees with the specification: %s" % json.dumps(one[0])[:400])
    else:
        raise lib.ToolError("unknown replay kind %r" % rep.get("kind"))


def selftest(ctx):
    """Binding demonstration. V: a fresh trace is accepted; one corrupted outcome of each record family is rejected at
    its index; a dropped record and a cut trace are rejected. R: a perturbed expectation of each case family is reported
    by the harness as a mismatch on exactly that case."""
    replay_bin, driver_bin = build()
    d = stage(ctx)
    raw = ctx.path("self.ndjson")
    params = [40, 250, 300, 0]
    drive(ctx, driver_bin, raw, params, ctx.seed)
    recs = read_trace(raw)
    validate_shape(recs)
    good = ctx.path("self_good.ndjson")
    write_trace(good, recs)
    ok, n, detail = validate(ctx, d, good)
    if not ok:
        raise lib.ToolError("selftest: the uncorrupted trace is rejected at %d: %s" % (n, detail[:300]))

    def first(pred):
        for i, e in enumerate(recs):
            if pred(e):
                return i
        raise lib.ToolError("selftest: no record to corrupt")

    corruptions = [
        ("rt: parsed as another network", first(lambda e: e["op"] == "rt" and e["kind"] == "sapling"),
         lambda e: dict(e, onet="main" if e["onet"] != "main" else "test")),
        ("rt: regtest transparent/Sprout address reported as regtest", first(lambda e: e["op"] == "rt" and e["kind"] in B58 and e["net"] == "regtest"),
         lambda e: dict(e, onet="regtest")),
        ("rt: data changed", first(lambda e: e["op"] == "rt" and e["kind"] == "unified"), lambda e: dict(e, same=False)),
        ("rt: panic", first(lambda e: e["op"] == "rt"), lambda e: dict(e, out="panic")),
        ("str: accepted string rejected", first(lambda e: e["op"] == "str" and e["out"] == "accept"), lambda e: dict(e, out="reject")),
        ("str: rejected string accepted", first(lambda e: e["op"] == "str" and e["out"] == "reject" and e["s"].get("case") == "upper"),
         lambda e: dict(e, out="accept", okind="sapling", onet="main", canon=True, data=True)),
        ("str: not canonical", first(lambda e: e["op"] == "str" and e["out"] == "accept" and e["s"]["ws"] != "none"),
         lambda e: dict(e, canon=False)),
        ("fuzz: accepted but not canonical", first(lambda e: e["op"] == "fuzz" and e["out"] == "accept"), lambda e: dict(e, canon=False)),
        ("fuzz: panic", first(lambda e: e["op"] == "fuzz"), lambda e: dict(e, out="panic")),
        ("uc: well-formed container rejected", first(lambda e: e["op"] == "uc" and e["out"] == "accept"), lambda e: dict(e, out="reject")),
        ("uc: permuted container accepted",
         first(lambda e: e["op"] == "uc" and e["out"] == "reject" and e["hk"] == e["dec"] and e["padding"] == "hrp" and e["struct"] == "ok"
               and any(a["n"] > b["n"] for a, b in zip(e["items"], e["items"][1:]))),
         lambda e: dict(e, out="accept", canon=True, same=True, netok=True)),
        ("uc: wrong padding accepted",
         first(lambda e: e["op"] == "uc" and e["out"] == "reject" and e["hk"] == e["dec"] and e["padding"] == "wrong"),
         lambda e: dict(e, out="accept", canon=True, same=True, netok=True)),
        ("uc: items not preserved", first(lambda e: e["op"] == "uc" and e["out"] == "accept"), lambda e: dict(e, same=False)),
        ("uc: too short container accepted", first(lambda e: e["op"] == "uc" and e["size"] == 47 and e["hk"] == e["dec"]),
         lambda e: dict(e, out="accept", canon=True, same=True, netok=True)),
        ("jumble: differs from the reference", first(lambda e: e["op"] == "jumble" and not e["err"]), lambda e: dict(e, ref=False)),
        ("jumble: not inverse", first(lambda e: e["op"] == "jumble" and not e["err"] and e["n"] > 200), lambda e: dict(e, inv=False)),
        ("jumble: invalid length accepted", first(lambda e: e["op"] == "jumble" and e["err"]),
         lambda e: dict(e, err=False, inv=True, len=True, ref=True)),
        ("cin: testnet transparent/Sprout address refused for regtest",
         first(lambda e: e["op"] == "cin" and e["kind"] in B58 and e["net"] == "test" and e["want"] == "regtest"),
         lambda e: dict(e, ok=False)),
        ("cin: testnet sapling converted for regtest",
         first(lambda e: e["op"] == "cin" and e["kind"] == "sapling" and e["net"] == "test" and e["want"] == "regtest"),
         lambda e: dict(e, ok=True)),
    ]
    for name, i, f in corruptions:
        mutated = list(recs)
        mutated[i] = f(recs[i])
        p = ctx.path("self_bad.ndjson")
        write_trace(p, mutated)
        ok, n, detail = validate(ctx, d, p)
        if ok or n != i + 1:
            raise lib.ToolError("selftest: corruption '%s' of record %d not rejected there (verdict %s at %s)" % (name, i + 1, ok, n))
        lib.log("selftest: corruption '%s' rejected at record %d" % (name, n))
    p = ctx.path("self_dropped.ndjson")
    write_trace(p, recs)
    lines = open(p).read().splitlines()
    k = len(lines) // 2
    write(p, "\n".join(lines[:k] + lines[k + 1:]) + "\n")
    ok, n, detail = validate(ctx, d, p)
    if ok or n != len(lines) - 1:
        raise lib.ToolError("selftest: dropped record not noticed at the end marker (verdict %s at %s)" % (ok, n))
    write(p, "\n".join(lines[:k]) + "\n")
    ok, n, detail = validate(ctx, d, p)
    if ok:
        raise lib.ToolError("selftest: cut trace accepted")

    # R: perturbed expectations
    strs, vals, cins = mc_dispatch(ctx, d)
    table, ucs = emit_zip316(ctx, d, 2)
    acc = next(c for c in ucs if c["acc"] and c["k"] == "addr" and len(c["it"]) == 2)
    rej = next(c for c in ucs if not c["acc"] and c["rs"] == ["order"] and c["k"] == "fvk")
    pad = next(c for c in ucs if not c["acc"] and c["rs"] == ["padding"] and c["k"] == "ivk")
    tfi = next(c for c in ucs if c["tfi"] == "accept" and not c["acc"] and c["p"] == "hrp")
    s_acc = next(s for s in strs if s["exp"]["acc"] and s["s"]["form"] == "b58" and s["s"]["ws"] == "trail")
    s_rej = next(s for s in strs if not s["exp"]["acc"] and s["s"]["form"] == "bech" and s["s"]["variant"] == "bech32"
                 and s["s"]["hrp"] == {"fam": "tex", "net": "main"} and s["s"]["payload"] == "raw20" and s["s"]["case"] == "lower"
                 and s["s"]["ws"] == "none")
    v_reg = next(v for v in vals if v["kind"] == "sprout" and v["net"] == "regtest")
    c_ok = next(c for c in cins if c["kind"] == "p2pkh" and c["net"] == "test" and c["want"] == "regtest")
    perturbed = [
        ("uc", dict(acc, acc=False, by=[])), ("uc", dict(rej, acc=True, by=["fvk"])), ("uc", dict(pad, acc=True, by=["ivk"])),
        ("uc", dict(tfi, tfi="reject")),
        ("str", dict(s_acc, exp={"acc": False, "kind": "-", "net": "-"})),
        ("str", dict(s_rej, exp={"acc": True, "kind": "tex", "net": "main"})),
        ("str", dict(s_acc, exp=dict(s_acc["exp"], net="regtest"))),
        ("val", dict(v_reg, pnet="regtest")), ("cin", dict(c_ok, ok=False)),
    ]
    untouched = [("uc", acc), ("uc", rej), ("str", s_acc), ("val", v_reg), ("cin", c_ok)]
    cases_path = ctx.path("self_cases.ndjson")
    with open(cases_path, "w") as f:
        f.write(json.dumps(dict(table, T="table")) + "\n")
        for tag, c in perturbed + untouched:
            f.write(json.dumps(dict(c, T=tag)) + "\n")
    res = run_replay(ctx, replay_bin, cases_path, ctx.seed, 1)
    got = [json.dumps(strip_case(m["case"]), sort_keys=True) for m in res["mismatches"]]
    for tag, c in perturbed:
        if json.dumps(c, sort_keys=True) not in got:
            raise lib.ToolError("selftest: perturbed %s expectation not reported by the harness: %s" % (tag, json.dumps(c)[:300]))
    for tag, c in untouched:
        if json.dumps(c, sort_keys=True) in got:
            raise lib.ToolError("selftest: unperturbed %s case reported: %s" % (tag, json.dumps(c)[:300]))
    lib.log("selftest ok: %d records accepted, %d corruptions each rejected at their index, dropped/cut trace rejected, "
            "%d perturbed expectations each reported, %d untouched cases silent" % (len(recs), len(corruptions), len(perturbed), len(untouched)))
