"""C13 — PCZT encoding, combination and roles preserve the transaction.

1. TLC checks the theorems of spec/Pczt/PcztLattice.tla (Merge is commutative, idempotent, independent
   of every grouping and order of 2, 3 and 4 copies, monotone, and fails exactly when some component
   has no upper bound) over several slot universes and over all 256 `tx_modifiable` bytes, the theorems
   of PcztGrowth.tla (a shielded bundle whose spend and output lists still grow: the result holds the
   longer lists AND the value balance that belongs to them, or the combination is refused), and the
   invariants of PcztRoles.tla over all role orders.
2. Spec -> code (R): TLC enumerates party assignments with the predicted outcome; c13_replay binds the
   abstract slots to every concrete field of real PCZTs (built with the real builder / Creator /
   IoFinalizer), makes the parties, executes every grouping and order with Combiner::combine, and
   compares verdict and the serialised result with the prediction (byte-for-byte, through an own
   mirror of the v1/v2 encodings).
3. Code -> spec (V): seeded random sequences of real role applications (Updater, Signer, Redactor,
   SpendFinalizer, Combiner, serialise/parse, Prover in the thorough tier, finally the Transaction
   Extractor) are logged and validated by TLC against Trace_PcztRoles.tla (frames, effects and txid
   unchanged, `tx_modifiable` discipline, minimal encoding, round trip).
"""
import json
import os
import subprocess
import time

from . import lib

AREA = "Pczt"

VALID_FLAGS = [b for b in range(256) if (b >> 3) & 0xF == 0]          # the 16 bytes with bits 3..6 clear
FLAGS_SMALL = sorted(set(VALID_FLAGS + [8, 64, 255]))                  # + reserved bits 3 and 6 + all ones
FLAGS_64 = [b for b in range(256) if (b >> 4) & 0x3 == 0]              # bits 0,1,2,3,6,7 free


def tla_set(xs):
    return "{" + ", ".join(('"%s"' % x) if isinstance(x, str) else str(x) for x in xs) + "}"


def write_cfg(path, n, opt=(), eq=(), flags=(0,), lock=(1,), tin=(2,), tout=(2,), act=(2,), bsk=(1,),
              invariants=(), kind=None, stage=True, lub=False):
    with open(path, "w") as f:
        f.write("SPECIFICATION Spec\nCONSTANTS\n")
        f.write("  OptSlots = %s\n  EqSlots = %s\n  Vals = {1, 2}\n  N = %d\n" % (tla_set(opt), tla_set(eq), n))
        f.write("  FlagSet = %s\n  LockV = %s\n  TinL = %s\n  ToutL = %s\n  ActL = %s\n  BskV = %s\n"
                % (tla_set(flags), tla_set(lock), tla_set(tin), tla_set(tout), tla_set(act), tla_set(bsk)))
        if kind is None:
            f.write("  CheckLub = %s\n" % ("TRUE" if lub else "FALSE"))
        else:
            f.write('  Kind = "%s"\n  Stage = %s\n' % (kind, "TRUE" if stage else "FALSE"))
        if invariants:
            f.write("INVARIANTS %s\n" % " ".join(invariants))
        f.write("CHECK_DEADLOCK FALSE\n")


PAIR = ["Idempotent", "Commutative", "Monotone", "Groupings", "FailsIffPairwise", "KeepsEverything", "Lub"]
MULTI = ["Groupings", "FailsIffPairwise", "KeepsEverything"]


def lattice_runs(quick):
    """(name, kwargs) of the model-checking runs of PcztLattice. Every universe from which cases are
    emitted for the harness (case_runs) is contained in one of these."""
    runs = [
        # pairs: every theorem incl. least-upper-bound, slots x lock x eq
        ("pair_slots", dict(n=2, opt=("o1", "o2"), eq=("e1",), lock=(0, 1, 2), invariants=PAIR, lub=True)),
        # pairs: all 256 x 256 flag bytes
        ("pair_flags", dict(n=2, flags=range(256), invariants=PAIR[:-1])),
        ("pair_flags_lub", dict(n=2, flags=FLAGS_SMALL, lock=(0, 1), invariants=PAIR, lub=True)),
        # pairs: lists x modifiable bits x bsk, with the least-upper-bound theorem
        ("pair_lists", dict(n=2, flags=(0, 1, 128, 129), tin=(1, 2), act=(1, 2), bsk=(0, 1, 2), invariants=PAIR, lub=True)),
        # triples
        ("tri_opt", dict(n=3, opt=("o1", "o2"), invariants=MULTI)),
        ("tri_eq", dict(n=3, opt=("o1",), eq=("e1",), lock=(0, 1, 2), invariants=MULTI)),
        ("tri_flags", dict(n=3, flags=FLAGS_SMALL if quick else FLAGS_64, invariants=MULTI)),
        ("tri_lists_t", dict(n=3, flags=(0, 1, 2, 3), tin=(1, 2), tout=(1, 2), invariants=MULTI)),
        ("tri_lists_s", dict(n=3, flags=(0, 128), act=(1, 2), bsk=(0, 1, 2), invariants=MULTI)),
        # four copies, all 120 groupings
        ("four", dict(n=4, opt=("o1",), flags=(131,) if quick else (3, 131), invariants=MULTI)),
    ]
    if not quick:
        runs.append(("pair_lists_big", dict(n=2, flags=(0, 1, 2, 3, 128, 129, 130, 131), tin=(1, 2), tout=(1, 2), act=(1, 2),
                                            bsk=(0, 1, 2), invariants=PAIR, lub=True)))
        runs.append(("tri_slots_big", dict(n=3, opt=("o1", "o2"), eq=("e1",), lock=(0, 1, 2), invariants=MULTI)))
        runs.append(("tri_lists_mixed", dict(n=3, flags=(0, 1, 128, 129), tin=(1, 2), act=(1, 2), bsk=(0, 1), opt=("o1",),
                                             invariants=MULTI)))
        runs.append(("four_flags", dict(n=4, flags=(0, 1, 4, 5, 128, 133, 8), invariants=MULTI)))
    return runs


def universe_size(kw):
    n = 3 ** len(kw.get("opt", ())) * 2 ** len(kw.get("eq", ()))
    for k, dflt in (("flags", 1), ("lock", 1), ("tin", 1), ("tout", 1), ("act", 1), ("bsk", 1)):
        n *= len(list(kw[k])) if k in kw else dflt
    return n


def model_check(ctx, d):
    for (name, kw) in lattice_runs(ctx.quick()):
        cfg = "MC_%s.cfg" % name
        write_cfg(os.path.join(d, cfg), **kw)
        r = lib.tlc(ctx, d, "MC_PcztLattice", cfg, workers=8, timeout=2400, coverage=False)
        want = universe_size(kw) ** kw["n"]
        if r.distinct != want:
            raise lib.ToolError("vacuity: MC_PcztLattice/%s explored %d party choices, expected %d" % (name, r.distinct, want))
        lib.account_tlc(ctx, r)


# ------------------------------------------------------------------------------------------------
# growing shielded bundles (PcztGrowth): two list lengths + the value balance that belongs to them

GROW_PAIR = ["Idempotent", "Commutative", "KnownLub", "AllGroupings"]
GROW_MULTI = ["Idempotent", "Commutative", "AllGroupings"]


def write_grow_cfg(path, n, flags=(0, 128), ns=(0, 1, 2), no=(0, 1, 2), bsk=(0,), invariants=(), kind=None, lub=False):
    with open(path, "w") as f:
        f.write("SPECIFICATION Spec\nCONSTANTS\n  N = %d\n  FlagSet = %s\n  NsL = %s\n  NoL = %s\n  BskV = %s\n"
                % (n, tla_set(flags), tla_set(ns), tla_set(no), tla_set(bsk)))
        if kind is None:
            f.write("  CheckLub = %s\n" % ("TRUE" if lub else "FALSE"))
        else:
            f.write('  Kind = "%s"\n  Stage = FALSE\n' % kind)
        if invariants:
            f.write("INVARIANTS %s\n" % " ".join(invariants))
        f.write("CHECK_DEADLOCK FALSE\n")


def grow_universe(kw):
    return len(list(kw.get("flags", (0, 128)))) * len(list(kw.get("ns", (0, 1, 2)))) * len(list(kw.get("no", (0, 1, 2)))) \
        * len(list(kw.get("bsk", (0,))))


def growth_runs(quick):
    """Model-checking runs of PcztGrowth; every universe from which growth cases are emitted
    (growth_case_runs) is contained in one of them."""
    runs = [
        # pairs, two axes (Sapling) and one axis (Orchard / Ironwood), with the known-least-upper-bound theorem
        ("g_pair", dict(n=2, bsk=(0, 1, 2), invariants=GROW_PAIR, lub=True)),
        ("g_pair_o", dict(n=2, no=(0,), bsk=(0, 1, 2), invariants=GROW_PAIR, lub=True)),
        # triples: 12 groupings
        ("g_tri", dict(n=3, bsk=(0, 1) if quick else (0, 1, 2), invariants=GROW_MULTI)),
        # four copies: 120 groupings
        ("g_four", dict(n=4, flags=(128,), ns=(0, 1), no=(0, 1, 2), invariants=GROW_MULTI)),
    ]
    if not quick:
        runs.append(("g_four_big", dict(n=4, ns=(0, 1), no=(0, 1), bsk=(0, 1), invariants=GROW_MULTI)))
    return runs


def model_check_growth(ctx, d):
    for (name, kw) in growth_runs(ctx.quick()):
        cfg = "MC_%s.cfg" % name
        write_grow_cfg(os.path.join(d, cfg), **kw)
        r = lib.tlc(ctx, d, "MC_PcztGrowth", cfg, workers=8, timeout=2400, coverage=False)
        u = grow_universe(kw)
        want = u + u ** kw["n"]            # the first copy alone, then every choice of all copies
        if r.distinct != want:
            raise lib.ToolError("vacuity: MC_PcztGrowth/%s explored %d states, expected %d" % (name, r.distinct, want))
        lib.account_tlc(ctx, r)


def growth_case_runs(quick):
    runs = [
        # pairs over everything, both sides of IO finalisation
        ("growS2", dict(n=2, bsk=(0, 1, 2))),
        # triples before IO finalisation (quick) / everywhere (thorough): 12 groupings + the n-ary fold each
        ("growS", dict(n=3, bsk=(0,) if quick else (0, 1, 2))),
        # one axis (Orchard / Ironwood actions)
        ("growO", dict(n=3, no=(0,), bsk=(0, 1) if quick else (0, 1, 2))),
    ]
    if not quick:
        runs.append(("growO2", dict(n=2, no=(0,), bsk=(0, 1, 2))))
        runs.append(("growS4", dict(n=4, flags=(128,), ns=(0, 1), no=(0, 1, 2))))
    return runs


# ------------------------------------------------------------------------------------------------
# spec -> code: case emission

def case_runs(quick):
    runs = [
        ("opt1", dict(n=3, opt=("o1",))),
        ("opt2", dict(n=3, opt=("o1", "o2"))),
        ("eq1", dict(n=3, eq=("e1",))),
        ("lock", dict(n=3, opt=("o1",), lock=(0, 1, 2))),
        ("flags2", dict(n=2, flags=range(256))),
        ("flags3", dict(n=3, flags=FLAGS_SMALL if quick else FLAGS_64)),
        ("listsT", dict(n=3, flags=(0, 1, 2, 3), tin=(1, 2), tout=(1, 2))),
        ("listsO", dict(n=3, flags=(0, 128), act=(1, 2), bsk=(0, 1, 2))),
        # pairs across stages too (a finalised copy against a shorter or longer one): no grouping involved
        ("listsO2", dict(n=2, flags=(0, 128), act=(1, 2), bsk=(0, 1, 2), stage=False)),
        ("four", dict(n=4, opt=("o1",), flags=(131,) if quick else (3, 131))),
    ]
    return runs


def emit_cases(ctx, d, path, only=None):
    """Runs MC_PcztCases once per kind; writes trees + cases as ndjson. Returns the number of cases."""
    total = 0
    seen_n = set()
    with open(path, "w") as f:
        for (kind, kw) in case_runs(ctx.quick()):
            if only and kind not in only:
                continue
            cfg = "Cases_%s.cfg" % kind
            # no invariant here: the theorems were checked on these universes by model_check
            kw = dict(kw)
            st = kw.pop("stage", True)
            write_cfg(os.path.join(d, cfg), kind=kind, invariants=(), stage=st, **kw)
            r = lib.tlc(ctx, d, "MC_PcztCases", cfg, workers=1, timeout=2400, coverage=False)
            lib.account_tlc(ctx, r)
            for t in r.prints("TREES"):
                if t["n"] not in seen_n:
                    seen_n.add(t["n"])
                    f.write(json.dumps({"trees": t}) + "\n")
            cases = r.prints("CASE")
            if not cases:
                raise lib.ToolError("vacuity: no case emitted for kind %s" % kind)
            for c in cases:
                f.write(json.dumps(c) + "\n")
            total += len(cases)
        for (kind, kw) in growth_case_runs(ctx.quick()):
            if only and kind not in only:
                continue
            cfg = "Cases_%s.cfg" % kind
            write_grow_cfg(os.path.join(d, cfg), kind=kind, **kw)
            r = lib.tlc(ctx, d, "MC_PcztGrowthCases", cfg, workers=1, timeout=2400, coverage=False)
            lib.account_tlc(ctx, r)
            for t in r.prints("TREES"):
                if t["n"] not in seen_n:
                    seen_n.add(t["n"])
                    f.write(json.dumps({"trees": t}) + "\n")
            cases = r.prints("CASE")
            if len(cases) != grow_universe(kw) ** kw["n"]:
                raise lib.ToolError("vacuity: %d cases emitted for kind %s, expected %d" % (len(cases), kind, grow_universe(kw) ** kw["n"]))
            for c in cases:
                f.write(json.dumps(c) + "\n")
            total += len(cases)
    return total


ROLE_CFGS = ["MC_PcztRoles_t1.cfg", "MC_PcztRoles_t2.cfg", "MC_PcztRoles_t3.cfg", "MC_PcztRoles_sFALSE.cfg", "MC_PcztRoles_sTRUE.cfg"]
ROLE_ACTIONS_T = ["Update", "SignT", "Redact", "RedactSig", "Finalize", "Combine", "Reparse"]
ROLE_ACTIONS_S = ["SignT", "SignS", "Prove", "Redact", "Compact", "Resolve", "Finalize", "Combine", "Reparse"]


def model_check_roles(ctx, d):
    for cfg in ROLE_CFGS:
        cov = cfg in ("MC_PcztRoles_t1.cfg", "MC_PcztRoles_sFALSE.cfg") or not ctx.quick()
        r = lib.tlc(ctx, d, "MC_PcztRoles", cfg, workers=8, timeout=1200, coverage=cov)
        if cov:
            lib.require_coverage(r, ROLE_ACTIONS_S if "_s" in cfg else ROLE_ACTIONS_T)
        elif r.distinct < 10000:
            raise lib.ToolError("vacuity: MC_PcztRoles/%s explored only %d states" % (cfg, r.distinct))
        lib.account_tlc(ctx, r)


def stage(ctx):
    d = lib.stage_specs(ctx, AREA)
    for m in ("PcztLattice", "MC_PcztLattice", "MC_PcztCases", "PcztGrowth", "MC_PcztGrowth", "MC_PcztGrowthCases", "PcztFrames", "PcztRoles",
              "MC_PcztRoles", "Trace_PcztRoles"):
        lib.sany(os.path.join(d, m + ".tla"))
    return d


# ------------------------------------------------------------------------------------------------
# spec -> code

def start_bin(bindir, args, seed):
    """Starts c13_replay in the background (the harness runs while TLC checks the models)."""
    env = dict(os.environ)
    env["VERIF_SEED"] = str(seed)
    return subprocess.Popen([os.path.join(bindir, "c13_replay")] + list(args), env=env, stdout=subprocess.PIPE,
                            stderr=subprocess.PIPE, text=True)


def finish_bin(proc, what, timeout):
    try:
        out, err = proc.communicate(timeout=timeout)
    except subprocess.TimeoutExpired:
        proc.kill()
        raise lib.ToolError("c13_replay %s timed out" % what)
    if proc.returncode != 0:
        lib.log(out[-2000:])
        lib.log(err[-3000:])
        raise lib.ToolError("c13_replay %s exited with %d" % (what, proc.returncode))
    return json.loads(out.strip().splitlines()[-1])


def run_merge(ctx, bindir, cases_path, tier, seed):
    return finish_bin(start_bin(bindir, ["merge", cases_path, tier], seed), "merge", 3000)


def check_growth_vacuity(res):
    """The growth kinds must have executed, on a base whose stages all have different value balances, at
    least: one case in which a copy is longer on ONE axis only and the copies combine (the result's
    value balance is then the longer copy's, whichever comes first), one case with copies grown on
    different axes (refused), and one case whose outcome depends on the grouping (side growth)."""
    g = res.get("grow") or {}
    pk = res["per_kind"]
    need = {"growS": pk.get("growS", 0), "growS2": pk.get("growS2", 0), "growO": pk.get("growO", 0), "cases": g.get("cases", 0),
            "one_axis": g.get("one_axis", 0), "one_axis_pairs_joined": g.get("one_axis_pairs_joined", 0),
            "incomparable": g.get("incomparable", 0), "order_dependent": g.get("order_dependent", 0),
            "two-axis Sapling base with distinct balances": (g.get("per_base") or {}).get("s2s2/sapling", 0),
            "Orchard base with distinct balances": sum(v for k, v in (g.get("per_base") or {}).items() if k.endswith("/orchard"))}
    thin = [k for k, v in need.items() if v <= 0]
    if thin:
        raise lib.ToolError("vacuity: growth replay executed nothing for: %s (%s)" % (", ".join(thin), json.dumps(g)))


def describe_case(m):
    if m["kind"] == "codec":
        return "base %s, slot %s, %s: %s" % (m["base"], m["detail"].get("slot"), m["detail"].get("memo"), m["detail"].get("what"))
    ps = m["case"]["ps"]
    if m["kind"] == "grow":
        c = m["case"]
        return ("growing %s bundle of base %s, copies [flags, spends, outputs, value balance of (spends, outputs), bsk] %s; predicted: %s; %s"
                % (m["binding"].get("pool"), m["base"], json.dumps([[p["flags"], p["ns"], p["no"], p["vs"], p["bsk"]] for p in ps]),
                   ("%s %s%s" % ("every grouping gives" if not c["bad"] else "the groupings not refused give",
                                   json.dumps([c["v"]["flags"], c["v"]["ns"], c["v"]["no"], c["v"]["vs"], c["v"]["bsk"]]),
                                                 "" if not c["bad"] else "; refused groupings (postfix): %s" % json.dumps(c["bad"])[:300]))
                   if c["any"] else "every grouping is refused", json.dumps(m["detail"])[:900]))

    def party(p):
        out = {}
        for k in ("opt", "eq"):
            if p[k]:
                out.update(p[k])
        for k in ("lock", "flags", "tin", "tout", "act", "bsk"):
            out[k] = p[k]
        return out
    want = m["case"]["out"]
    return "base %s, binding %s, parties %s, predicted %s; %s" % (
        m["base"], json.dumps(m["binding"]), json.dumps([party(p) for p in ps]),
        ("join " + json.dumps(party(want["v"]))) if want["ok"] else "conflict", json.dumps(m["detail"])[:900])


def report_merge(ctx, mismatches, cap=3):
    for m in mismatches[:cap]:
        lib.violation(ctx, {"property": "C13", "kind": m["kind"], "base": m["base"], "case": m["case"], "binding": m["binding"],
                            "idx": m["idx"], "trees": m["trees"], "seed": m["seed"], "tier": m["tier"], "detail": m["detail"]},
                      ("Pczt::parse / serialize break the encoding's acceptance boundary: " if m["kind"] == "codec"
                       else "Combiner::combine disagrees with PcztGrowth.Merge: " if m["kind"] == "grow"
                       else "Combiner::combine disagrees with PcztLattice.Merge: ") + describe_case(m))


# ------------------------------------------------------------------------------------------------
# code -> spec

def run_roles(ctx, bindir, nseq, tier, seed, name):
    path = ctx.path(name)
    res = finish_bin(start_bin(bindir, ["roles", path, str(nseq), tier], seed), "roles", 3000)
    return path, res, res.get("failure")


def read_trace(path):
    with open(path) as f:
        return [json.loads(x) for x in f if x.strip()]


def write_trace(path, recs):
    with open(path, "w") as f:
        for r in recs:
            f.write(json.dumps(r) + "\n")


def validate_roles(ctx, d, path):
    ok, k, detail, res = lib.tlc_validate(ctx, d, "Trace_PcztRoles", "Trace_PcztRoles.cfg", path, timeout=1800)
    lib.account_tlc(ctx, res)
    return ok, k, detail


def sequence_of(res, k):
    for s in res["seqs"]:
        if s["first"] <= k <= s["last"]:
            return s
    return None


def explain(rec):
    """Which clause of Trace_PcztRoles a rejected record most plainly breaks (for the report only)."""
    pre, post = rec["pre"], rec["post"]
    why = []
    if rec["oc"] == "panic":
        why.append("the role panicked")
    for k, txt in (("rt", "parse(serialize(p)) does not re-serialise identically"), ("own", "serialisation differs from the canonical encoding of its content"),
                   ("get", "getters disagree with the serialised content"), ("z244", "pczt_txid is not the ZIP 244 identifier of the effects"),
                   ("sigok", "a partial signature does not verify under the ZIP 244 digest of the effects")):
        if not post.get(k, True):
            why.append(txt)
    if post["txid"] != pre["txid"]:
        why.append("transaction identifier changed %s -> %s" % (pre["txid"], post["txid"]))
    v1 = (not post["txv6"]) and (not post["iron"]) and post["nv2"] and post["oanchor"] and post["sanchor"] and post["cvcmx"] and post["memo"]
    if post["enc"] != (1 if v1 else 2):
        why.append("encoding v%d chosen although the content is %sv1-representable" % (post["enc"], "" if v1 else "not "))
    if rec["a"] == "extract" and rec["oc"] == "ok" and (rec["txid_tx"] != pre["txid"] or not rec["fields"]):
        why.append("extracted transaction %s does not have the PCZT's effects / identifier %s" % (rec["txid_tx"], pre["txid"]))
    if rec["ch"]:
        why.append("writes: " + ", ".join("%s(%s)" % (c["c"], c["d"]) for c in rec["ch"]))
    if pre["flags"] != post["flags"] or rec["a"] in ("sign_t", "sign_s", "combine"):
        why.append("tx_modifiable 0x%02x -> 0x%02x" % (pre["flags"], post["flags"]))
    return "; ".join(why)


def report_roles(ctx, res, recs, k, seed, nseq, tier):
    rec = recs[k - 1]
    seq = sequence_of(res, k) or {"first": 1, "last": k, "base": "?", "ops": []}
    lib.violation(ctx, {"property": "C13", "kind": "roles", "seed": seed, "nseq": nseq, "tier": tier, "index": k,
                        "sequence": seq, "record": rec, "prefix": recs[seq["first"] - 1:k]},
                  "role %s (%s) on copy %d of base %s is not allowed by PcztRoles/PcztFrames at trace record %d: %s"
                  % (rec["a"], rec.get("op") or rec["arg"], rec["cp"], seq["base"], k, explain(rec)))


def trace_classes(recs):
    c = {}

    def hit(k):
        c[k] = c.get(k, 0) + 1
    for r in recs:
        hit("role:" + r["a"])
        if r["oc"] != "ok":
            hit("%s:%s" % (r["a"], r["oc"]))
            continue
        if r["a"] == "sign_t":
            hit("sign_t:ht=%d" % r["ht"])
            if r["pre"]["flags"] != r["post"]["flags"]:
                hit("sign_t:flags-change")
        if r["a"] == "combine" and r["ch"]:
            hit("combine:adds")
        if r["a"] == "combine" and r["pre"]["flags"] != r["post"]["flags"]:
            hit("combine:flags-change")
        if r["post"]["enc"] != r["pre"]["enc"]:
            hit("encoding:%d->%d" % (r["pre"]["enc"], r["post"]["enc"]))
        if r["a"] == "extract":
            hit("extract:ok")
        for n in r["post"].get("mlens", []):
            hit("memo:%d" % n)
        for w in r["ch"]:
            hit("write:%s:%s" % (w["c"], w["d"]))
    need = ["role:" + a for a in ("io_finalize", "update", "sign_t", "sign_s", "redact", "compact", "resolve", "verify", "finalize",
                                  "combine", "reparse", "set_anchor", "set_witness", "extract")] + \
           ["combine:conflict", "combine:adds", "combine:flags-change", "sign_t:flags-change", "encoding:1->2", "encoding:2->1", "extract:ok"] + \
           ["sign_t:ht=%d" % h for h in (1, 2, 3, 0x81, 0x82, 0x83)] + \
           ["memo:%d" % n for n in (0, 1, 511, 512)]        # memo plaintext form at the length boundaries
    return c, [k for k in need if not c.get(k)]


def run(ctx):
    bindir = lib.cargo_build("h_tx", ["c13_replay"])
    d = stage(ctx)
    # the cases first, so that the harness can execute them while TLC checks the theorems
    cases_path = ctx.path("cases.ndjson")
    ncases = emit_cases(ctx, d, cases_path)
    emitted_states = ctx.states
    nseq = 400 if ctx.quick() else 300
    tpath = ctx.path("roles.ndjson")
    t0 = time.time()
    merge_proc = start_bin(bindir, ["merge", cases_path, ctx.tier], ctx.seed)
    roles_proc = start_bin(bindir, ["roles", tpath, str(nseq), ctx.tier], ctx.seed)
    try:
        # (1) the specifications alone
        model_check(ctx, d)
        model_check_growth(ctx, d)
        model_check_roles(ctx, d)
    except BaseException:
        merge_proc.kill()
        roles_proc.kill()
        raise
    ctx.extra["model_states"] = ctx.states - emitted_states

    # (2) spec -> code
    res = finish_bin(merge_proc, "merge", 3000)
    rres = finish_bin(roles_proc, "roles", 3000)
    lib.log("[harness] merge + roles finished %.1fs after their start" % (time.time() - t0))
    report_merge(ctx, res["mismatches"])
    if res["cases"] < ncases or res["role_cases"] < 500 or res["joins_predicted"] < 1000 or res["conflicts_predicted"] < 1000 \
            or res["v2_results"] < 50 or res["v1_results"] < 50:
        raise lib.ToolError("vacuity: merge replay too thin: %s" % json.dumps({k: v for k, v in res.items() if isinstance(v, int)}))
    check_growth_vacuity(res)
    g = res["grow"]
    lib.log("growth: %d cases on %s; %d with a copy longer on one axis only (%d two-copy joins), %d with copies grown on different axes, "
            "%d order-dependent (%d refused groupings next to a successful one), %d across IO finalisation"
            % (g["cases"] + g["cases_on_bases_with_shared_balances"], ", ".join(sorted(g["per_base"])), g["one_axis"], g["one_axis_pairs_joined"],
               g["incomparable"], g["order_dependent"], g["refused_groupings"], g["cross_stage"]))
    lib.log("merge: %d cases (%d with parties made by real roles), %d combines, %d predicted joins / %d conflicts, %d slot classes, %d mismatches"
            % (res["cases"], res["role_cases"], res["combines"], res["joins_predicted"], res["conflicts_predicted"],
               res["slot_classes"], len(res["mismatches"])))

    # (3) code -> spec
    failure = rres.get("failure")
    recs = read_trace(tpath)
    accepted = 0
    if failure:
        lib.violation(ctx, {"property": "C13", "kind": "roles_driver", "seed": ctx.seed, "nseq": nseq, "tier": ctx.tier, "failure": failure},
                      "a PCZT produced by a role cannot be observed: %s (base %s, ops %s)"
                      % (failure["what"], failure["base"], json.dumps(failure["ops"])[:600]))
    else:
        ok, k, detail = validate_roles(ctx, d, tpath)
        if ok:
            accepted = k
            classes, missing = trace_classes(recs)
            shielded_extracted = sum(1 for sq in rres["seqs"] if sq["base"] != "transparent" and recs[sq["last"] - 1]["a"] == "extract"
                                     and recs[sq["last"] - 1]["oc"] == "ok")
            ctx.extra["shielded_transactions_extracted"] = shielded_extracted
            if shielded_extracted < 2:
                missing.append("extract of a proven shielded transaction")
            if missing:
                raise lib.ToolError("vacuity: the role driver produced no event of class %s" % ", ".join(missing))
            ctx.extra["trace_classes"] = {k2: v for k2, v in sorted(classes.items()) if not k2.startswith("write:")}
            ctx.extra["classes_written_by_roles"] = sorted({k2.split(":", 1)[1] for k2 in classes if k2.startswith("write:")})
        else:
            accepted = k - 1
            report_roles(ctx, rres, recs, k, ctx.seed, nseq, ctx.tier)

    ctx.traces = res["cases"] + accepted
    for r in recs:
        if r["a"] == "sign_t" and r["oc"] == "ok" and r["pre"]["flags"] != r["post"]["flags"]:
            ctx.add_sample({"role": "sign_t", "sighash_type": r["ht"], "tx_modifiable": [r["pre"]["flags"], r["post"]["flags"]], "txid": r["post"]["txid"]})
            break
    for r in recs:
        if r["a"] == "extract" and r["oc"] == "ok":
            ctx.add_sample({"role": "extract", "pczt_txid": r["pre"]["txid"], "extracted_txid": r["txid_tx"]})
            break
    ctx.add_sample({"merge": "TLC case kinds replayed", "per_kind": res["per_kind"]})
    ctx.extra["merge"] = {k: v for k, v in res.items() if k not in ("mismatches", "classes", "role_classes")}
    ctx.extra["merge"]["slot_classes_bound"] = res["classes"]
    ctx.extra["merge"]["slot_classes_written_by_real_roles"] = res["role_classes"]
    ctx.extra["roles"] = {"sequences": rres["sequences"], "events": rres["events"], "stats": rres["stats"]}
    lib.mc_evidence(
        ctx,
        rule="R: every TLC-enumerated party assignment (kinds opt1/opt2/eq1/lock/flags2/flags3/listsT/listsO/four) is bound to "
             "concrete slots of real PCZTs and executed with Combiner::combine under every grouping and order of the parties "
             "(2 / 12 / 120 trees + the n-ary fold); verdict and serialised result compared byte-for-byte with the predicted join. "
             "Kinds growS/growS2/growO (PcztGrowth): copies of a not yet IO-finalised Sapling (spends x outputs) / Orchard / Ironwood "
             "bundle cut to every pair of prefix lengths, each with the value balance of the items it holds; the prediction is per "
             "grouping (refused, or the longer lists with THEIR value balance). "
             "V: every logged role application is validated by TLC against Trace_PcztRoles. traces_validated = merge cases + "
             "accepted trace records; distinct_nontrivial = distinct predicted join results + distinct (role, write set) pairs",
        evaluations=res["combines"] + len(recs),
        distinct_nontrivial=res["distinct_results"] + len({(r["a"], json.dumps(r["ch"])) for r in recs if r["ch"]}),
        extra={"exhaustive": False, "flag_bytes_pairs_exhaustive": True, "bases": res["bases"]},
        assumptions=[
            "PCZTs are observed through an own mirror of the v1/v2 postcard encodings (harness) and the public getters; a change of "
            "the wire layout itself makes the mirror fail (tool error), it is not judged",
            "parties with arbitrary slot contents are made with the own encoder and Pczt::parse; parties made by real roles cover "
            "the slots the Updater / Signer / Redactor can write",
            "merge laws are claimed for copies within one stage (PcztLattice!SameStage); outside, the pinned merge is not a join "
            "(TLC-checked witness NonAssocWitness); likewise copies that grew on different axes of a Sapling bundle are refused pairwise "
            "but absorbed by a third copy holding both (TLC-checked witness SideGrowthWitness), so an outcome can depend on the "
            "grouping: there the real Combiner is compared with the specification's prediction grouping by grouping, and the "
            "order-independence law is claimed only for chains of copies within one stage",
            "growing bundles: copies are prefixes of one real bundle's lists made with the own encoder (the public API has no "
            "Constructor role); equal-length copies with different value_sum and no bsk (not one transaction) are not exercised",
            "a Sapling anchor that is absent and the all-zero anchor of a bundle without spends are one value (v1 has no absent anchor)",
            "Redactor preconditions respected by the driver: note fields are not cleared while an action is in compact form; "
            "`rho` is not cleared before `rseed`; anchors are cleared only in v6 PCZTs",
            "own ZIP 244 txid / transparent signature digest cover v5; for v6 the identifier is judged relationally "
            "(unchanged by every role, equal to the extracted transaction's)",
            "proofs (Prover, extraction of shielded transactions) only in the thorough tier; validity of proofs and shielded "
            "signatures beyond what the Transaction Extractor verifies is not decided",
        ])


# ------------------------------------------------------------------------------------------------

def replay(ctx, path):
    bindir = lib.cargo_build("h_tx", ["c13_replay"])
    with open(path) as f:
        rep = json.load(f)
    kind = rep.get("kind")
    if kind in ("merge", "merge_roles", "codec", "grow"):
        p = lib.run_bin(os.path.join(bindir, "c13_replay"), ["rerun", path], timeout=600)
        out = json.loads(p.stdout.strip().splitlines()[-1])
        if out["mismatch"]:
            m = dict(rep)
            m["detail"] = out["mismatch"]
            report_merge(ctx, [m])
        else:
            lib.log("replay: the case now agrees with the specification")
    elif kind in ("roles", "roles_driver"):
        d = stage(ctx)
        tpath, rres, failure = run_roles(ctx, bindir, rep["nseq"], rep["tier"], rep["seed"], "replay_roles.ndjson")
        if failure:
            lib.violation(ctx, {"property": "C13", "kind": "roles_driver", "seed": rep["seed"], "nseq": rep["nseq"], "tier": rep["tier"],
                                "failure": failure}, "a PCZT produced by a role cannot be observed: %s" % failure["what"])
            return
        recs = read_trace(tpath)
        ok, k, detail = validate_roles(ctx, d, tpath)
        if not ok:
            report_roles(ctx, rres, recs, k, rep["seed"], rep["nseq"], rep["tier"])
        else:
            lib.log("replay: the re-executed role sequences now satisfy the specification")
    else:
        raise lib.ToolError("unknown replay kind")


# ------------------------------------------------------------------------------------------------

def _expect_reject(ctx, d, recs, what, at=None):
    path = ctx.path("self_%d.ndjson" % _expect_reject.n)
    _expect_reject.n += 1
    write_trace(path, recs)
    ok, k, detail = validate_roles(ctx, d, path)
    if ok:
        raise lib.ToolError("selftest: corruption not detected (%s)" % what)
    if at is not None and k != at:
        raise lib.ToolError("selftest: corruption (%s) rejected at record %d, expected %d" % (what, k, at))
    lib.log("selftest ok: %s -> rejected at record %d" % (what, k))


_expect_reject.n = 0


def selftest(ctx):
    """Binding demonstration. V: a fresh trace of the real roles is accepted; one corrupted field per
    clause of Trace_PcztRoles (and a dropped event) must be rejected at its index. R: a perturbed
    prediction (verdict, slot value, flag byte, encoding-relevant slot) must be reported by the harness."""
    bindir = lib.cargo_build("h_tx", ["c13_replay"])
    d = stage(ctx)
    tpath, rres, failure = run_roles(ctx, bindir, 60, "quick", ctx.seed, "roles.ndjson")
    if failure:
        raise lib.ToolError("selftest: role driver failed: %s" % failure["what"])
    recs = read_trace(tpath)
    ok, k, detail = validate_roles(ctx, d, tpath)
    if not ok:
        raise lib.ToolError("selftest: fresh trace rejected at %d: %s" % (k, detail[:400]))

    def corrupt(what, pred, mut):
        for i, r in enumerate(recs):
            if pred(r):
                c = json.loads(json.dumps(recs[:i + 1]))
                mut(c[i])
                _expect_reject(ctx, d, c, what, at=i + 1)
                return
        raise lib.ToolError("selftest: no suitable record for: " + what)

    okr = lambda a: (lambda r: r["a"] == a and r["oc"] == "ok")
    corrupt("Signer leaves shielded-modifiable set", lambda r: okr("sign_t")(r) and r["pre"]["flags"] & 0x80,
            lambda r: r["post"].__setitem__("flags", r["post"]["flags"] | 0x80))
    corrupt("Signer clears inputs-modifiable under ANYONECANPAY", lambda r: okr("sign_t")(r) and r["ht"] & 0x80 and r["pre"]["flags"] & 1,
            lambda r: r["post"].__setitem__("flags", r["post"]["flags"] & ~1))
    corrupt("Signer does not record SIGHASH_SINGLE", lambda r: okr("sign_t")(r) and r["ht"] & 0x7f == 3,
            lambda r: r["post"].__setitem__("flags", r["post"]["flags"] & ~4))
    corrupt("signature missing after Sign", okr("sign_t"), lambda r: r["post"].__setitem__("sigs", []))
    corrupt("a role changes the txid", okr("update"), lambda r: r["post"].__setitem__("txid", "00" * 32))
    corrupt("Redactor touches an effect field", okr("redact"),
            lambda r: r["ch"].append({"c": "transparent.inputs[].script_pubkey", "d": "mod"}))
    corrupt("Redactor clears an optional effect (sequence)", okr("redact"),
            lambda r: r["ch"].append({"c": "transparent.inputs[].sequence", "d": "del"}))
    corrupt("Updater writes outside its frame", okr("update"), lambda r: r["ch"].append({"c": "orchard.actions[].spend.alpha", "d": "mod"}))
    corrupt("Signer writes a proprietary field", okr("sign_t"), lambda r: r["ch"].append({"c": "global.proprietary{}", "d": "add"}))
    corrupt("Spend Finaliser clears a required lock time", okr("finalize"),
            lambda r: r["ch"].append({"c": "transparent.inputs[].required_height_lock_time", "d": "del"}))
    corrupt("Combiner drops a field", lambda r: okr("combine")(r) and r["ch"], lambda r: r["ch"][0].__setitem__("d", "del"))
    corrupt("Combiner merges inputs-modifiable towards true", lambda r: okr("combine")(r) and (r["pre"]["flags"] ^ r["oflags"]) & 1,
            lambda r: r["post"].__setitem__("flags", r["post"]["flags"] | 1))
    corrupt("Combiner succeeds on conflicting copies", okr("combine"), lambda r: r.__setitem__("ncf", 2))
    corrupt("Combiner refuses compatible copies", lambda r: r["a"] == "combine" and r["oc"] == "conflict", lambda r: r.__setitem__("ncf", 0))
    corrupt("v2 chosen although v1 suffices", lambda r: r["oc"] == "ok" and r["a"] != "extract" and r["post"]["enc"] == 1,
            lambda r: r["post"].__setitem__("enc", 2))
    corrupt("v1 chosen for a v6 transaction", lambda r: r["oc"] == "ok" and r["a"] not in ("extract", "io_finalize") and r["post"]["txv6"],
            lambda r: r["post"].__setitem__("enc", 1))
    corrupt("parse(serialize(p)) differs", okr("reparse"), lambda r: r["post"].__setitem__("rt", False))
    corrupt("pczt_txid is not the ZIP 244 identifier", okr("redact"), lambda r: r["post"].__setitem__("z244", False))
    corrupt("signature over another digest", okr("sign_t"), lambda r: r["post"].__setitem__("sigok", False))
    corrupt("extracted transaction has another txid", okr("extract"), lambda r: r.__setitem__("txid_tx", "11" * 32))
    corrupt("a role panics", okr("verify"), lambda r: r.__setitem__("oc", "panic"))
    corrupt("a refused role changed the copy", lambda r: r["oc"] == "err" and r["a"] != "extract",
            lambda r: r["post"].__setitem__("flags", r["post"]["flags"] ^ 4))
    corrupt("IO Finaliser leaves the bits set on a shielded transaction", lambda r: r["a"] == "io_finalize" and r["i"] == 1,
            lambda r: r["post"].__setitem__("flags", r["post"]["flags"] | 0x80))
    # a dropped event: the next event on that copy no longer starts from the recorded state
    for i, r in enumerate(recs):
        if r["oc"] == "ok" and r["a"] == "sign_t" and r["ch"]:
            nxt = next((j for j in range(i + 1, len(recs)) if recs[j]["cp"] == r["cp"] or recs[j]["a"] == "io_finalize"), None)
            if nxt is not None and recs[nxt]["a"] != "io_finalize":
                _expect_reject(ctx, d, recs[:i] + recs[i + 1:], "dropped event", at=nxt)
                break
    else:
        raise lib.ToolError("selftest: no event to drop")

    # R: perturbed predictions
    cases_path = ctx.path("cases.ndjson")
    emit_cases(ctx, d, cases_path, only=("opt1", "flags3", "growS2", "growS"))
    lines = [json.loads(x) for x in open(cases_path) if x.strip()]
    trees = [x for x in lines if "trees" in x]
    cases = [x for x in lines if "trees" not in x]

    def perturbed(what, pred, mut):
        c = json.loads(json.dumps(next(x for x in cases if pred(x))))
        mut(c)
        pp = ctx.path("perturbed_%d.ndjson" % perturbed.n)
        perturbed.n += 1
        write_trace(pp, trees + [c])
        res = run_merge(ctx, bindir, pp, "quick", ctx.seed)
        if not res["mismatches"]:
            raise lib.ToolError("selftest: perturbed prediction not reported (%s)" % what)
        lib.log("selftest ok: %s -> %d mismatching bindings reported" % (what, len(res["mismatches"])))
    perturbed.n = 0
    opt1 = lambda f: (lambda x: x["k"] == "opt1" and f([p["opt"]["o1"] for p in x["ps"]]))
    perturbed("join predicted as conflict", opt1(lambda v: v == [0, 1, 0]), lambda c: c["out"].__setitem__("ok", False))
    perturbed("conflict predicted as join", opt1(lambda v: v == [1, 2, 0]),
              lambda c: c.__setitem__("out", {"ok": True, "v": dict(c["ps"][0])}))
    perturbed("slot predicted empty", opt1(lambda v: v == [0, 0, 2]), lambda c: c["out"]["v"]["opt"].__setitem__("o1", 0))
    perturbed("slot predicted with the other value", opt1(lambda v: v == [1, 0, 1]), lambda c: c["out"]["v"]["opt"].__setitem__("o1", 2))
    perturbed("flag bit predicted wrongly", lambda x: x["k"] == "flags3" and x["out"]["ok"] and x["out"]["v"]["flags"] & 1 == 0
              and any(p["flags"] & 1 for p in x["ps"]), lambda c: c["out"]["v"].__setitem__("flags", c["out"]["v"]["flags"] | 1))
    perturbed("reserved flag bit accepted", lambda x: x["k"] == "flags3" and not x["out"]["ok"] and all(p["flags"] in (0, 8) for p in x["ps"]),
              lambda c: c.__setitem__("out", {"ok": True, "v": dict(c["ps"][0], flags=0)}))
    # growing bundles (PcztGrowth): copies are [flags, spends, outputs, bsk]
    shape = lambda p: (p["flags"], p["ns"], p["no"], p["bsk"])
    grow2 = lambda a, b: (lambda x: x["k"] == "growS2" and shape(x["ps"][0]) == a and shape(x["ps"][1]) == b)

    def as_join(v):
        return lambda c: c.update({"any": True, "bad": [], "v": v, "out": {"ok": True, "v": v}})
    # the second copy has one more output: the result must carry the longer copy's value balance
    perturbed("result predicted with the shorter copy's value balance", grow2((128, 1, 1, 0), (128, 1, 2, 0)),
              lambda c: (c["v"].__setitem__("vs", [1, 1]), c["out"]["v"].__setitem__("vs", [1, 1])))
    perturbed("result predicted with the shorter list", grow2((128, 1, 1, 0), (128, 1, 2, 0)),
              lambda c: (c["v"].update({"no": 1, "vs": [1, 1]}), c["out"]["v"].update({"no": 1, "vs": [1, 1]})))
    perturbed("copies grown on different axes predicted to combine", grow2((128, 1, 1, 0), (128, 0, 2, 0)),
              as_join({"flags": 128, "ns": 1, "no": 2, "vs": [1, 2], "bsk": 0}))
    perturbed("growth of a copy that is no longer modifiable predicted to combine", grow2((0, 1, 1, 0), (128, 1, 2, 0)),
              as_join({"flags": 0, "ns": 1, "no": 2, "vs": [1, 2], "bsk": 0}))
    perturbed("growth after IO finalisation predicted to combine", grow2((128, 1, 1, 0), (0, 1, 2, 1)),
              as_join({"flags": 0, "ns": 1, "no": 2, "vs": [1, 2], "bsk": 1}))
    perturbed("a mergeable pair predicted as conflict", grow2((128, 0, 1, 0), (128, 1, 1, 0)),
              lambda c: c.update({"any": False, "bad": [[1, 2, 0], [2, 1, 0]], "out": {"ok": False, "v": c["v"]}}))
    perturbed("a refused grouping predicted to succeed", lambda x: x["k"] == "growS" and x["any"] and x["bad"], lambda c: c["bad"].pop())
    perturbed("a successful grouping predicted to be refused", lambda x: x["k"] == "growS" and x["any"] and x["bad"],
              lambda c: c["bad"].extend([t for t in next(x for x in trees if x["trees"]["n"] == 3)["trees"]["trees"] if t not in c["bad"]]))
    # the theorems of PcztGrowth bind: a specification whose Merge is wrong in the way the code could be is refuted by TLC
    import shutil

    def spec_mutation(what, old, new):
        md = ctx.path("spec_mut_%d" % spec_mutation.n)
        spec_mutation.n += 1
        shutil.copytree(d, md)
        src = open(os.path.join(md, "PcztGrowth.tla")).read()
        if src.count(old) != 1:
            raise lib.ToolError("selftest: cannot mutate PcztGrowth.tla (%s)" % what)
        with open(os.path.join(md, "PcztGrowth.tla"), "w") as f:
            f.write(src.replace(old, new))
        # without the two checked witnesses, so that it is the theorems that have to refute it
        mc = open(os.path.join(md, "MC_PcztGrowth.tla")).read()
        if mc.count("ASSUME SideGrowthWitness\nASSUME StageWitness\n") != 1:
            raise lib.ToolError("selftest: witnesses of MC_PcztGrowth.tla not found")
        with open(os.path.join(md, "MC_PcztGrowth.tla"), "w") as f:
            f.write(mc.replace("ASSUME SideGrowthWitness\nASSUME StageWitness\n", ""))
        write_grow_cfg(os.path.join(md, "MC_mut.cfg"), n=3, bsk=(0,), invariants=GROW_MULTI)
        r = lib.tlc(ctx, md, "MC_PcztGrowth", "MC_mut.cfg", workers=4, timeout=600, coverage=False, expect_ok=False)
        by = ("invariant " + r.invariant) if r.invariant else None
        if r.ok or not by:
            raise lib.ToolError("selftest: a wrong Merge is not refuted by the theorems of PcztGrowth (%s)" % what)
        lib.log("selftest ok: %s -> refuted by TLC: %s" % (what, by))
    spec_mutation.n = 0
    spec_mutation("Merge keeps the left copy's value balance", "vs    |-> IF Dominates(a, b) THEN a.vs ELSE b.vs,", "vs    |-> a.vs,")
    spec_mutation("Merge combines copies grown on different axes", "ELSE /\\ Dominates(a, b) \\/ Dominates(b, a)\n", "ELSE /\\ TRUE\n")
    spec_mutation("Merge lets a copy that is not modifiable grow", "            /\\ Shorter(a, b) => Mod(a)\n", "")
    lib.log("selftest ok: %d trace corruptions rejected, %d perturbed predictions reported, %d wrong specifications refuted"
            % (_expect_reject.n, perturbed.n, spec_mutation.n))
