"""C13 — PCZT encoding, combination and roles preserve the transaction.

1. TLC checks the theorems of spec/Pczt/PcztLattice.tla (Merge is commutative, idempotent, independent
   of every grouping and order of 2, 3 and 4 copies, monotone, and fails exactly when some component
   has no upper bound) over several slot universes and over all 256 `tx_modifiable` bytes, and the
   invariants of PcztRoles.tla over all role orders.
2. Spec -> code (R): TLC enumerates party assignments with the predicted outcome; c13_replay binds the
   abstract slots to every concrete field of real PCZTs (built with the real builder / Creator /
   IoFinalizer), makes the parties, executes every grouping and order with Combiner::combine, and
   compares verdict and the serialised result with the prediction (byte-for-byte, through an own
   mirror of the v1/v2 encodings).
3. Code -> spec (V): seeded random sequences of real role applications (Updater, Signer, Redactor,
   SpendFinalizer, Combiner, serialise/parse, Prover in the thorough tier, finally the Transaction
   Extractor) are logged and validated by TLC against Trace_PcztRoles.tla (frames, effects and txid
   unchanged, `tx_modifiable` discipline, minimal encoding, round trip).
"""
import json
import os

from . import lib

AREA = "Pczt"

VALID_FLAGS = [b for b in range(256) if (b >> 3) & 0xF == 0]          # the 16 bytes with bits 3..6 clear
FLAGS_SMALL = sorted(set(VALID_FLAGS + [8, 16, 32, 64, 255]))          # + one byte per reserved bit + all ones
FLAGS_64 = [b for b in range(256) if (b >> 4) & 0x3 == 0]              # bits 0,1,2,3,6,7 free


def tla_set(xs):
    return "{" + ", ".join(('"%s"' % x) if isinstance(x, str) else str(x) for x in xs) + "}"


def write_cfg(path, n, opt=(), eq=(), flags=(0,), lock=(1,), tin=(2,), tout=(2,), act=(2,), bsk=(1,),
              invariants=(), kind=None, stage=True, lub=False):
    with open(path, "w") as f:
        f.write("SPECIFICATION Spec\nCONSTANTS\n")
        f.write("  OptSlots = %s\n  EqSlots = %s\n  Vals = {1, 2}\n  N = %d\n" % (tla_set(opt), tla_set(eq), n))
        f.write("  FlagSet = %s\n  LockV = %s\n  TinL = %s\n  ToutL = %s\n  ActL = %s\n  BskV = %s\n"
                % (tla_set(flags), tla_set(lock), tla_set(tin), tla_set(tout), tla_set(act), tla_set(bsk)))
        if kind is None:
            f.write("  CheckLub = %s\n" % ("TRUE" if lub else "FALSE"))
        else:
            f.write('  Kind = "%s"\n  Stage = %s\n' % (kind, "TRUE" if stage else "FALSE"))
        if invariants:
            f.write("INVARIANTS %s\n" % " ".join(invariants))
        f.write("CHECK_DEADLOCK FALSE\n")


PAIR = ["Idempotent", "Commutative", "Monotone", "Groupings", "FailsIffPairwise", "KeepsEverything", "Lub"]
MULTI = ["Groupings", "FailsIffPairwise", "KeepsEverything"]


def lattice_runs(quick):
    """(name, kwargs) of the model-checking runs of PcztLattice. Every universe from which cases are
    emitted for the harness (case_runs) is contained in one of these."""
    runs = [
        # pairs: every theorem incl. least-upper-bound, slots x lock x eq
        ("pair_slots", dict(n=2, opt=("o1", "o2"), eq=("e1",), lock=(0, 1, 2), invariants=PAIR, lub=True)),
        # pairs: all 256 x 256 flag bytes
        ("pair_flags", dict(n=2, flags=range(256), invariants=PAIR[:-1])),
        ("pair_flags_lub", dict(n=2, flags=FLAGS_SMALL, lock=(0, 1), invariants=PAIR, lub=True)),
        # pairs: lists x modifiable bits x bsk, with the least-upper-bound theorem
        ("pair_lists", dict(n=2, flags=(0, 1, 128, 129), tin=(1, 2), act=(1, 2), bsk=(0, 1, 2), invariants=PAIR, lub=True)),
        # triples
        ("tri_opt", dict(n=3, opt=("o1", "o2"), invariants=MULTI)),
        ("tri_eq", dict(n=3, opt=("o1",), eq=("e1",), lock=(0, 1, 2), invariants=MULTI)),
        ("tri_flags", dict(n=3, flags=FLAGS_SMALL if quick else FLAGS_64, invariants=MULTI)),
        ("tri_lists_t", dict(n=3, flags=(0, 1, 2, 3), tin=(1, 2), tout=(1, 2), invariants=MULTI)),
        ("tri_lists_s", dict(n=3, flags=(0, 128), act=(1, 2), bsk=(0, 1, 2), invariants=MULTI)),
        # four copies, all 120 groupings
        ("four", dict(n=4, opt=("o1",), flags=(131,) if quick else (3, 131), invariants=MULTI)),
    ]
    if not quick:
        runs.append(("pair_lists_big", dict(n=2, flags=(0, 1, 2, 3, 128, 129, 130, 131), tin=(1, 2), tout=(1, 2), act=(1, 2),
                                            bsk=(0, 1, 2), invariants=PAIR, lub=True)))
        runs.append(("tri_slots_big", dict(n=3, opt=("o1", "o2"), eq=("e1",), lock=(0, 1, 2), invariants=MULTI)))
        runs.append(("tri_lists_mixed", dict(n=3, flags=(0, 1, 128, 129), tin=(1, 2), act=(1, 2), bsk=(0, 1), opt=("o1",),
                                             invariants=MULTI)))
        runs.append(("four_flags", dict(n=4, flags=(0, 1, 4, 5, 128, 133, 8), invariants=MULTI)))
    return runs


def universe_size(kw):
    n = 3 ** len(kw.get("opt", ())) * 2 ** len(kw.get("eq", ()))
    for k, dflt in (("flags", 1), ("lock", 1), ("tin", 1), ("tout", 1), ("act", 1), ("bsk", 1)):
        n *= len(list(kw[k])) if k in kw else dflt
    return n


def model_check(ctx, d):
    for (name, kw) in lattice_runs(ctx.quick()):
        cfg = "MC_%s.cfg" % name
        write_cfg(os.path.join(d, cfg), **kw)
        r = lib.tlc(ctx, d, "MC_PcztLattice", cfg, workers=8, timeout=2400, coverage=False)
        want = universe_size(kw) ** kw["n"]
        if r.distinct != want:
            raise lib.ToolError("vacuity: MC_PcztLattice/%s explored %d party choices, expected %d" % (name, r.distinct, want))
        lib.account_tlc(ctx, r)


# ------------------------------------------------------------------------------------------------
# spec -> code: case emission

def case_runs(quick):
    runs = [
        ("opt1", dict(n=3, opt=("o1",))),
        ("opt2", dict(n=3, opt=("o1", "o2"))),
        ("eq1", dict(n=3, eq=("e1",))),
        ("lock", dict(n=3, opt=("o1",), lock=(0, 1, 2))),
        ("flags2", dict(n=2, flags=range(256))),
        ("flags3", dict(n=3, flags=FLAGS_SMALL)),
        ("listsT", dict(n=3, flags=(0, 1, 2, 3), tin=(1, 2), tout=(1, 2))),
        ("listsO", dict(n=3, flags=(0, 128), act=(1, 2), bsk=(0, 1, 2))),
        ("four", dict(n=4, opt=("o1",), flags=(131,) if quick else (3, 131))),
    ]
    return runs


def emit_cases(ctx, d, path, only=None):
    """Runs MC_PcztCases once per kind; writes trees + cases as ndjson. Returns the number of cases."""
    total = 0
    seen_n = set()
    with open(path, "w") as f:
        for (kind, kw) in case_runs(ctx.quick()):
            if only and kind not in only:
                continue
            cfg = "Cases_%s.cfg" % kind
            # no invariant here: the theorems were checked on these universes by model_check
            write_cfg(os.path.join(d, cfg), kind=kind, invariants=(), **kw)
            r = lib.tlc(ctx, d, "MC_PcztCases", cfg, workers=1, timeout=2400, coverage=False)
            lib.account_tlc(ctx, r)
            for t in r.prints("TREES"):
                if t["n"] not in seen_n:
                    seen_n.add(t["n"])
                    f.write(json.dumps({"trees": t}) + "\n")
            cases = r.prints("CASE")
            if not cases:
                raise lib.ToolError("vacuity: no case emitted for kind %s" % kind)
            for c in cases:
                f.write(json.dumps(c) + "\n")
            total += len(cases)
    return total


def stage(ctx):
    d = lib.stage_specs(ctx, AREA)
    for m in ("PcztLattice", "MC_PcztLattice", "MC_PcztCases"):
        lib.sany(os.path.join(d, m + ".tla"))
    return d


def run(ctx):
    bindir = lib.cargo_build("h_tx", ["c13_replay"])
    d = stage(ctx)
    model_check(ctx, d)
    cases_path = ctx.path("cases.ndjson")
    n = emit_cases(ctx, d, cases_path)
    p = lib.run_bin(os.path.join(bindir, "c13_replay"), ["merge", cases_path, ctx.tier],
                    env_extra={"VERIF_SEED": str(ctx.seed)}, timeout=2400)
    res = json.loads(p.stdout.strip().splitlines()[-1])
    lib.log("merge: %s" % json.dumps({k: v for k, v in res.items() if k not in ("classes", "mismatches")}))
    lib.log(json.dumps(res["mismatches"])[:3000])
