"""Shared machinery of /verif checks: cargo builds of the harness against /repo's working tree,
SANY/TLC wrappers (model checking, behaviour emission, trace validation), evidence and verdicts.

Exit-code contract (bin/check):
  0  property held on everything explored (KNOWN-FINDING lines allowed)
  1  a violation against the *real code*; a line `VIOLATION property=<id> replay=<path>` is printed
  2  tool error / timeout / vacuity / a counterexample on the model alone (never a VIOLATION)
"""
import hashlib
import json
import os
import re
import shutil
import subprocess
import sys
import time

ROOT = os.path.dirname(os.path.dirname(os.path.abspath(__file__)))
# VERIF_HARNESS_DIR / VERIF_OUT_DIR are used only by bin/mutant-run (development aid: runs a check
# against a scratch copy of the repository without touching /repo or /verif's outputs).
HARNESS = os.environ.get("VERIF_HARNESS_DIR") or os.path.join(ROOT, "harness")
OUT = os.environ.get("VERIF_OUT_DIR") or ROOT
SPEC = os.path.join(ROOT, "spec")
WORK = os.path.join(OUT, "work")
EVID = os.path.join(OUT, "evidence")
REPLAYS = os.path.join(OUT, "replays")
TLA_JAR = "/opt/veriftools/tla/tla2tools.jar"
TLA_CP = TLA_JAR + ":/opt/veriftools/tla/CommunityModules-deps.jar"


class ToolError(Exception):
    pass


def log(*a):
    print(*a, flush=True)


class Ctx:
    def __init__(self, prop, tier, seed):
        self.prop = prop
        self.tier = tier
        self.seed = seed
        self.t0 = time.time()
        self.work = os.path.join(WORK, prop)
        shutil.rmtree(self.work, ignore_errors=True)
        os.makedirs(self.work, exist_ok=True)
        os.makedirs(EVID, exist_ok=True)
        os.makedirs(REPLAYS, exist_ok=True)
        self.violations = []      # (replay_path, summary)
        self.known = []           # known-finding lines printed
        self.states = 0
        self.transitions = 0
        self.traces = 0
        self.samples = []
        self.assumptions = []
        self.extra = {}
        self.tlc_runs = []

    def quick(self):
        return self.tier == "quick"

    def path(self, name):
        return os.path.join(self.work, name)

    def add_sample(self, s, cap=6):
        if len(self.samples) < cap:
            self.samples.append(s)


# ------------------------------------------------------------------------------------------------
# cargo

def cargo_build(pkg, bins=None, timeout=3000):
    """Builds harness package `pkg` (release) against /repo's *current working tree*.
    Returns the directory holding the binaries."""
    cmd = ["cargo", "build", "--release", "--offline", "-p", pkg]
    for b in bins or []:
        cmd += ["--bin", b]
    env = dict(os.environ)
    env["CARGO_NET_OFFLINE"] = "true"
    t = time.time()
    p = subprocess.run(cmd, cwd=HARNESS, env=env, stdout=subprocess.PIPE, stderr=subprocess.STDOUT,
                       text=True, timeout=timeout)
    if p.returncode != 0:
        sys.stdout.write(p.stdout[-6000:])
        raise ToolError("cargo build failed for %s" % pkg)
    log("[build] %s %s ok in %.1fs" % (pkg, bins or "", time.time() - t))
    return os.path.join(HARNESS, "target", "release")


def run_bin(path, args=(), env_extra=None, timeout=1800, stdin=None, cwd=None, ok_codes=(0,)):
    env = dict(os.environ)
    env.update(env_extra or {})
    p = subprocess.run([path] + list(args), env=env, input=stdin, stdout=subprocess.PIPE,
                       stderr=subprocess.PIPE, text=True, timeout=timeout, cwd=cwd)
    if p.returncode not in ok_codes:
        sys.stdout.write(p.stdout[-3000:])
        sys.stdout.write(p.stderr[-3000:])
        raise ToolError("%s exited with %d" % (os.path.basename(path), p.returncode))
    return p


# ------------------------------------------------------------------------------------------------
# SANY / TLC

def sany(tla_path):
    d, f = os.path.split(tla_path)
    p = subprocess.run(["java", "-cp", TLA_CP, "tla2sany.SANY", f], cwd=d, stdout=subprocess.PIPE,
                       stderr=subprocess.STDOUT, text=True, timeout=300)
    if p.returncode != 0 or "*** Errors" in p.stdout or "Fatal errors" in p.stdout \
            or "Could not find module" in p.stdout:
        sys.stdout.write(p.stdout[-4000:])
        raise ToolError("SANY rejected %s" % tla_path)


class TlcResult:
    def __init__(self):
        self.rc = None
        self.out = ""
        self.generated = 0
        self.distinct = 0
        self.depth = 0
        self.ok = False            # "No error has been found"
        self.invariant = None      # name of a violated invariant / property
        self.coverage = {}         # action name -> (distinct, taken)
        self.wall = 0.0
        self.cmd = ""

    def prints(self, tag):
        """JSON payloads printed as PrintT(<<tag, ToJson(v)>>)."""
        pre = '<<"%s", ' % tag
        res = []
        for line in self.out.splitlines():
            if line.startswith(pre) and line.endswith(">>"):
                lit = line[len(pre):-2]
                res.append(json.loads(json.loads(lit)))
        return res

    def tuples(self, tag):
        """Raw text of lines printed as PrintT(<<tag, ...>>) (TLA+ value syntax)."""
        pre = '<<"%s", ' % tag
        return [l[len(pre):-2] for l in self.out.splitlines() if l.startswith(pre) and l.endswith(">>")]


_COV = re.compile(r"^<(\w+) line \d+, col \d+ to line \d+, col \d+ of module (\w+)(?: \([\d ]+\))?>: (\d+):(\d+)")


def tlc(ctx, spec_dir, module, cfg, workers=4, timeout=900, simulate=None, depth=None,
        env_extra=None, coverage=True, xmx="6g", xss=None, deque=False, extra_args=(),
        expect_ok=True, seed=None, keep_out=True):
    """Runs TLC on spec_dir/module.tla with cfg. Raises ToolError on timeout or on any TLC error
    when expect_ok (a counterexample on the model alone is a tool error, never a violation)."""
    meta = os.path.join(ctx.work, "tlc_%s_%d" % (module, len(ctx.tlc_runs)))
    shutil.rmtree(meta, ignore_errors=True)
    jopts = ["-XX:+UseParallelGC", "-Xmx" + xmx]
    if xss:
        jopts.append("-Xss" + xss)
    if deque:
        jopts.append("-Dtlc2.tool.queue.IStateQueue=StateDeque")
    cmd = ["java"] + jopts + ["-cp", TLA_CP, "tlc2.TLC", "-workers", str(workers), "-metadir", meta,
                               "-cleanup", "-noGenerateSpecTE", "-config", cfg]
    if coverage and not simulate:
        cmd += ["-coverage", "1"]
    if simulate:
        cmd += ["-simulate", "num=%d" % simulate]
        if depth:
            cmd += ["-depth", str(depth)]
    if seed is not None:
        cmd += ["-seed", str(seed)]
    cmd += list(extra_args) + [module + ".tla"]
    env = dict(os.environ)
    env.pop("JAVA_TOOL_OPTIONS", None)
    env.update(env_extra or {})
    r = TlcResult()
    r.cmd = " ".join(cmd)
    t = time.time()
    try:
        p = subprocess.run(cmd, cwd=spec_dir, env=env, stdout=subprocess.PIPE, stderr=subprocess.STDOUT,
                           text=True, timeout=timeout)
    except subprocess.TimeoutExpired:
        shutil.rmtree(meta, ignore_errors=True)
        raise ToolError("TLC timeout (%ds) on %s/%s" % (timeout, module, cfg))
    r.wall = time.time() - t
    r.rc = p.returncode
    r.out = p.stdout
    shutil.rmtree(meta, ignore_errors=True)
    # TLC drops states/ dirs next to the spec when -metadir is honoured only partly
    m = re.findall(r"(\d+) states generated, (\d+) distinct states found", r.out)
    if m:
        r.generated, r.distinct = int(m[-1][0]), int(m[-1][1])
    m = re.search(r"The depth of the complete state graph search is (\d+)", r.out)
    if m:
        r.depth = int(m.group(1))
    r.ok = "No error has been found" in r.out or (simulate and p.returncode == 0 and "Error:" not in r.out)
    m = re.search(r"Error: Invariant (\w+) is violated", r.out) or \
        re.search(r"Error: Action property (\w+) is violated", r.out) or \
        re.search(r"Error: Temporal properties were violated", r.out)
    if m:
        r.invariant = m.group(1) if m.groups() else "temporal"
    for line in r.out.splitlines():
        mm = _COV.match(line)
        if mm:
            r.coverage[mm.group(1)] = (int(mm.group(3)), int(mm.group(4)))
    ctx.tlc_runs.append({"module": module, "cfg": cfg, "generated": r.generated, "distinct": r.distinct,
                         "wall_s": round(r.wall, 2), "ok": bool(r.ok)})
    if simulate:
        log("[tlc] %s/%s simulate num=%s ok=%s %.1fs" % (module, cfg, simulate, r.ok, r.wall))
    else:
        log("[tlc] %s/%s: %d generated, %d distinct, depth %d, ok=%s, %.1fs"
            % (module, cfg, r.generated, r.distinct, r.depth, r.ok, r.wall))
    if expect_ok and not r.ok:
        tail = "\n".join(l for l in r.out.splitlines() if not l.startswith("<<"))[-5000:]
        sys.stdout.write(tail + "\n")
        raise ToolError("TLC reported an error on the model alone (%s/%s): %s"
                        % (module, cfg, r.invariant or "see output"))
    return r


def require_coverage(res, actions):
    """Vacuity guard: every named action must have been taken at least once."""
    missing = [a for a in actions if res.coverage.get(a, (0, 0))[1] == 0 and res.coverage.get(a, (0, 0))[0] == 0]
    if missing:
        raise ToolError("vacuity: actions never taken in TLC run: %s" % ", ".join(missing))


def tlc_validate(ctx, spec_dir, module, cfg, trace_path, timeout=900, xmx="4g", env_extra=None):
    """Trace validation: the trace spec reads IOEnv.TRACE; acceptance is decided by its
    POSTCONDITION, which prints  <<"TRACE", "accepted", n>>  or  <<"TRACE", "rejected", k, ...>>.
    Returns (accepted, matched_events, detail_text, TlcResult)."""
    env = {"TRACE": trace_path}
    env.update(env_extra or {})
    r = tlc(ctx, spec_dir, module, cfg, workers=1, timeout=timeout, env_extra=env, coverage=False,
            xmx=xmx, xss="1g", deque=True, expect_ok=False)
    acc = r.tuples("TRACE")
    if not acc:
        sys.stdout.write(r.out[-5000:] + "\n")
        raise ToolError("trace validation of %s produced no verdict" % trace_path)
    last = acc[-1]
    if last.startswith('"accepted"'):
        if not r.ok:
            sys.stdout.write(r.out[-5000:] + "\n")
            raise ToolError("trace accepted but TLC reported an error (%s)" % (r.invariant,))
        n = int(last.split(",")[1].strip())
        return True, n, "", r
    m = re.match(r'"rejected", (\d+)', last)
    k = int(m.group(1)) if m else -1
    return False, k, last, r


# ------------------------------------------------------------------------------------------------
# verdicts and evidence

def load_known_findings():
    p = os.path.join(ROOT, "known_findings.json")
    if not os.path.exists(p):
        return []
    with open(p) as f:
        return json.load(f).get("findings", [])


def known_finding(ctx, what):
    line = "KNOWN-FINDING: property=%s %s" % (ctx.prop, what)
    if line not in ctx.known:
        ctx.known.append(line)
        log(line)


def violation(ctx, replay_obj, summary):
    """Records a violation against the real code: writes a replay file, prints the VIOLATION line."""
    blob = json.dumps(replay_obj, sort_keys=True, indent=1)
    h = hashlib.sha256(blob.encode()).hexdigest()[:10]
    path = os.path.join(REPLAYS, "%s-%s.json" % (ctx.prop, h))
    with open(path, "w") as f:
        f.write(blob + "\n")
    ctx.violations.append((path, summary))
    log("violation detail: %s" % summary[:2000])
    log("VIOLATION property=%s replay=%s" % (ctx.prop, path))


def write_evidence(ctx, level, coverage, assumptions=None):
    cov = dict(coverage)
    cov.setdefault("samples", ctx.samples or ["(no sample recorded)"])
    ev = {
        "property_id": ctx.prop,
        "tier": ctx.tier,
        "seed": int(ctx.seed),
        "level": level,
        "coverage": cov,
        "assumptions": list(assumptions or []) + ctx.assumptions,
        "wall_s": round(time.time() - ctx.t0, 2),
        "violations": len(ctx.violations),
        "known_findings": ctx.known,
        "tlc_runs": ctx.tlc_runs,
    }
    ev.update(ctx.extra)
    with open(os.path.join(EVID, ctx.prop + ".json"), "w") as f:
        json.dump(ev, f, indent=1, sort_keys=True)
        f.write("\n")


def mc_evidence(ctx, rule, extra=None, assumptions=None, distinct_nontrivial=None, evaluations=None):
    cov = {
        "states": max(1, ctx.states),
        "transitions": max(1, ctx.transitions),
        "traces_validated_against_impl": ctx.traces,
        "rule": rule,
    }
    if evaluations is not None:
        cov["evaluations"] = evaluations
    if distinct_nontrivial is not None:
        cov["distinct_nontrivial"] = distinct_nontrivial
    cov.update(extra or {})
    write_evidence(ctx, "model_checking", cov, assumptions)


def account_tlc(ctx, r):
    ctx.states += r.distinct
    ctx.transitions += r.generated


def spec_dir(area):
    return os.path.join(SPEC, area)


def stage_specs(ctx, area, extra_areas=("lib",)):
    """Copies the spec modules of `area` (+ shared lib modules) into the work dir, so TLC runs never
    write next to the committed sources. Returns the staged directory."""
    d = ctx.path("spec")
    os.makedirs(d, exist_ok=True)
    for a in list(extra_areas) + [area]:
        src = spec_dir(a)
        if not os.path.isdir(src):
            continue
        for f in os.listdir(src):
            if f.endswith(".tla") or f.endswith(".cfg"):
                shutil.copy(os.path.join(src, f), os.path.join(d, f))
    return d
