"""C08V — standalone development wrapper for the validators part of C08 (checks/c08_validators.py).
Not registered; checks/c08.py calls the part directly."""
import json

from . import lib
from . import c08_validators as part


def run(ctx):
    stats = part.run_part(ctx)
    # no evidence file: C08V is not a registered property (evidence/C08.json is written by checks/c08.py)
    for r in stats["runs"]:
        lib.log("[c08v] %s" % json.dumps({k: r[k] for k in ("flavour", "M", "seed", "cases", "judged", "accepted", "rejected_build",
                                                            "rejected_multi", "exact_class", "member_class", "first_agree",
                                                            "first_differs", "decode_cases", "roundtrips", "corruptions",
                                                            "n_mismatch")}))


def selftest(ctx):
    part.selftest_part(ctx)


def replay(ctx, path):
    with open(path) as f:
        rep = json.load(f)
    part.replay_part(ctx, rep)
