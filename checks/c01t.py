"""C01T - development entry point for the transparent-coin part of C01 (checks/c01_coins.py), so that it can be run on its
own: `bin/check C01T`, `bin/check C01T --selftest`, `bin/mutant-run <patch> C01T`.  The registered check is C01
(checks/c01.py calls c01_coins.run_part / selftest_part / replay_part); this module is not in MANIFEST.json."""
import json

from . import c01_coins, lib


def run(ctx):
    totals = c01_coins.run_part(ctx)
    # no evidence file: C01T is not a registered property (C01's evidence is written by checks/c01.py)
    lib.log("coin part: states=%d transitions=%d traces=%d %s" % (ctx.states, ctx.transitions, ctx.traces, json.dumps(totals, sort_keys=True)))


def selftest(ctx):
    c01_coins.selftest_part(ctx)


def replay(ctx, path):
    with open(path) as f:
        rep = json.load(f)
    c01_coins.replay_part(ctx, rep)
