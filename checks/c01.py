"""C01 — wallet balance = ledger of unspent scanned notes, in any scan order (Wallet.tla).

1. TLC explores Wallet.tla exhaustively under small constants (MC_Wallet): every chain from a menu
   of transactions, every scan order / batching / repeat, tip updates, rewinds with and without a
   fork; theorems FreshEquivalence, Conservation, LedgerIsUnspent, OrphansExpire, ScanIdempotent.
2. A seeded driver runs random histories of the same operations against the real SQLite wallet
   (real note encryption, real constants: 40-block expiry, 100-block pruning) and TLC validates the
   recorded trace against Wallet.tla: after every operation the rows of the received-note tables,
   the spend links, the scanned blocks, the tip, the scan queue and the balances the public API
   reports must equal the specification's state (code -> spec); whenever the wallet is fully caught
   up, a second, fresh wallet that scanned the same chain once in order must agree as well.
"""
import json
import os

from . import lib

AREA = "Wallet"


def write_mc_cfg(path, maxtop, maxnotes, maxops):
    with open(path, "w") as f:
        f.write("SPECIFICATION MCSpec\nCONSTANTS\n  ExpiryDelta = 2\n  Dust = 5\n  MaxTop = %d\n  MaxNotes = %d\n"
                "  MaxOps = %d\nINVARIANT Inv\nPROPERTY ScanIdempotent\nCHECK_DEADLOCK FALSE\n" % (maxtop, maxnotes, maxops))


def drive(ctx, bindir, name, histories, ops, mode, seed, binary="c01_driver"):
    path = ctx.path("trace_%s.ndjson" % name)
    if mode == "scenarios":
        args = [path, "scenarios"]
    elif mode == "shard-scenarios":
        args = [path, "shard-scenarios", "5"]
    else:
        args = [path, str(histories), str(ops)] + ([mode] if mode else [])
    lib.run_bin(os.path.join(bindir, binary), args, env_extra={"VERIF_SEED": str(seed)}, timeout=3000)
    return path


def trace_stats(path):
    st = {"events": 0, "scan_ok": 0, "scan_err_tainted": 0, "trunc_ok": 0, "trunc_refused": 0, "forks": 0,
          "fresh": 0, "balance_checked": 0, "histories": 0, "max_height": 0, "links_seen": 0, "orphan_rows": 0}
    sample = None
    with open(path) as f:
        for line in f:
            r = json.loads(line)
            st["events"] += 1
            a = r["a"]
            if a == "reset":
                st["histories"] += 1
            elif a == "scan":
                st["scan_ok" if r["res"] == "ok" else "scan_err_tainted"] += 1
            elif a == "trunc":
                st["trunc_ok" if r["res"] == "ok" else "trunc_refused"] += 1
                st["forks"] += 1 if r.get("fork") else 0
            elif a == "fresh":
                st["fresh"] += 1
            elif a == "block":
                st["max_height"] = max(st["max_height"], r["h"])
            post = r.get("post") or {}
            if post.get("chk") and post.get("balp"):
                st["balance_checked"] += 1
            for n in post.get("notes", []) if post.get("chk") else []:
                st["links_seen"] = max(st["links_seen"], len(n["sp"]))
                if n["mined"] == -1:
                    st["orphan_rows"] += 1
            if a == "scan" and sample is None and post.get("notes"):
                sample = {k: r[k] for k in ("a", "from", "n", "res")}
                sample["post"] = {"tip": post["tip"], "bal": post["bal"], "notes": post["notes"][:3], "queue": post["queue"]}
    return st, sample


def trace_env(ledger=True, trees=False, locks=False):
    """Switches of Trace_Wallet.tla (all must be set). A scan refused in a history tainted by the C06
    stale-frontier finding is excused only while that finding is listed as open."""
    open_ids = {f["id"] for f in lib.load_known_findings() if f.get("status") == "open"}
    return {"EXPLAIN": "0", "CHECK_LEDGER": "1" if ledger else "0", "CHECK_TREES": "1" if trees else "0",
            "CHECK_LOCKS": "1" if locks else "0",
            "KF_STALE": "1" if "C06-stale-frontier-after-rewind" in open_ids else "0",
            "KF_RETAIN": "1" if "C06-retained-boundary-lost" in open_ids else "0",
            "KF_STALEROOT": "1" if "C06-stale-subtree-root-after-reorg" in open_ids else "0"}


def validate(ctx, d, path, what):
    acc, n, detail, r = lib.tlc_validate(ctx, d, "Trace_Wallet", "Trace_Wallet.cfg", path, timeout=1500,
                                         env_extra=trace_env())
    if acc:
        ctx.traces += n
        return True
    # first unmatched record: the real wallet did something Wallet.tla does not allow
    with open(path) as f:
        lines = f.read().splitlines()
    # cut to the history containing the rejected event
    start = max(i for i in range(n) if json.loads(lines[i])["a"] == "reset")
    lib.violation(ctx, {"property": ctx.prop, "kind": "trace_rejected", "what": what, "first_unmatched_event": n,
                        "event": json.loads(lines[n - 1]), "history": [json.loads(x) for x in lines[start:n]]},
                  "event %d of the recorded wallet history is not a step of Wallet.tla (projection of the real "
                  "wallet disagrees with the ledger the specification computes): %s" % (n, detail[:1500]))
    return False


def run(ctx):
    bindir = lib.cargo_build("h_wallet", ["c01_driver"])
    d = lib.stage_specs(ctx, AREA)
    lib.sany(os.path.join(d, "Trace_Wallet.tla"))
    lib.sany(os.path.join(d, "MC_Wallet.tla"))

    # (1) the specification alone
    cfg = "MC_gen.cfg"
    if ctx.quick():
        write_mc_cfg(os.path.join(d, cfg), 3, 2, 4)
    else:
        write_mc_cfg(os.path.join(d, cfg), 3, 3, 5)
    r = lib.tlc(ctx, d, "MC_Wallet", cfg, workers=8, timeout=3400)
    lib.require_coverage(r, ["EnvBlock", "WTip", "WScan", "WTrunc", "WCreate"])
    lib.account_tlc(ctx, r)

    # (2) recorded executions of the real wallet, validated by TLC
    plans = [("scenarios", 0, 0, "scenarios"), ("shards", 0, 0, "shard-scenarios")]
    plans += [("base", 12, 70, None), ("ironwood", 8, 70, "ironwood")] if ctx.quick() else \
        [("base%d" % i, 30, 90, None) for i in range(4)] + [("ironwood%d" % i, 30, 90, "ironwood") for i in range(3)]
    totals = {}
    for i, (name, hist, ops, mode) in enumerate(plans):
        path = drive(ctx, bindir, name, hist, ops, mode, ctx.seed * 100 + i)
        st, sample = trace_stats(path)
        for k, v in st.items():
            totals[k] = max(totals.get(k, 0), v) if k in ("max_height", "links_seen") else totals.get(k, 0) + v
        if sample:
            ctx.add_sample(sample)
        if not validate(ctx, d, path, name):
            break
    # the same driver compiled against the wallet crates WITH transparent-inputs (a configuration of the wallet
    # the baseline suite never builds): the shielded ledger must be the same there
    if not ctx.violations:
        tbin = lib.cargo_build("h_wallet_t", ["c01_driver_t"])
        for i, (name, hist, ops, mode) in enumerate([("t_base", 8, 70, None)] if ctx.quick() else
                                                     [("t_base", 30, 90, None), ("t_ironwood", 20, 90, "ironwood"), ("t_scen", 0, 0, "scenarios")]):
            path = drive(ctx, tbin, name, hist, ops, mode, ctx.seed * 100 + 50 + i, binary="c01_driver_t")
            st, _ = trace_stats(path)
            for k, v in st.items():
                totals[k] = max(totals.get(k, 0), v) if k in ("max_height", "links_seen") else totals.get(k, 0) + v
            if not validate(ctx, d, path, name):
                break
    # (3) transparent coins (Coins.tla; wallet crates with transparent-inputs): the coin ledger, reported UTXOs, fully
    # stored transactions, conflicting spenders, rewinds -- interleaved with the shielded operations on the same wallet
    coin_stats = None
    if not ctx.violations:
        from . import c01_coins
        coin_stats = c01_coins.run_part(ctx)
        ctx.extra["coin_stats"] = coin_stats
    if totals.get("balance_checked", 0) < 50 or totals.get("fresh", 0) < 3 or totals.get("trunc_ok", 0) < 3:
        raise lib.ToolError("vacuity: the driver produced too few checked states: %s" % totals)
    ctx.extra["trace_stats"] = totals
    lib.mc_evidence(
        ctx,
        rule="seeded random histories (block arrivals with receipts/spends/foreign traffic/dust in Sapling, Orchard, "
             "Ironwood; scans of any range in any order with repeats; tip updates; rewinds with and without a "
             "different continuation; empty stretches of 39-101 blocks) on the real SQLite wallet; every event's "
             "projection must equal Wallet.tla's state; distinct_nontrivial = events whose reported balance was "
             "compared with the specification's ledger",
        evaluations=totals.get("events", 0), distinct_nontrivial=totals.get("balance_checked", 0),
        assumptions=["harness-fabricated compact blocks are well-formed (real note encryption via the crates' TestFvk helpers)",
                     "two accounts; transparent coins are driven on the wallet crates built with transparent-inputs "
                     "(Coins.tla: reported UTXOs, fully stored transactions incl. conflicting spenders, set_transaction_status, "
                     "rewinds), interleaved with the shielded operations; the client follows the documented protocol (update_chain_tip before scanning above the tip; "
                     "the wallet is rewound before the chain is replaced)",
                     "a scan refused with a commitment-tree Conflict after a rewind below an inserted frontier is the "
                     "C06 known finding (ledger unchanged), classified by the spec's taint variable",
                     "no balance is claimed while the wallet reports no summary (scan progress not computable)"])


def replay(ctx, path):
    bindir = lib.cargo_build("h_wallet", ["c01_driver"])
    d = lib.stage_specs(ctx, AREA)
    with open(path) as f:
        rep = json.load(f)
    from . import c01_coins
    if rep.get("kind") == c01_coins.KIND:
        return c01_coins.replay_part(ctx, rep)
    tp = ctx.path("replay_trace.ndjson")
    with open(tp, "w") as f:
        for e in rep["history"]:
            f.write(json.dumps(e) + "\n")
    if validate(ctx, d, tp, "replay"):
        lib.log("replay: recorded history is accepted by the specification")


def selftest(ctx):
    """Binding demonstration: corrupt one logged balance / drop one event -> TLC must reject there."""
    bindir = lib.cargo_build("h_wallet", ["c01_driver"])
    d = lib.stage_specs(ctx, AREA)
    path = drive(ctx, bindir, "self", 3, 40, None, 7)
    with open(path) as f:
        lines = f.read().splitlines()
    recs = [json.loads(x) for x in lines]
    # a scan that changed the set of scanned blocks and reported a balance
    idx = [i for i in range(1, len(recs)) if recs[i]["a"] == "scan" and recs[i]["post"]["balp"] and recs[i]["post"]["notes"]
           and recs[i - 1].get("post", {}).get("chk") and recs[i - 1]["post"]["blocks"] != recs[i]["post"]["blocks"]][2]
    rec = json.loads(lines[idx])
    rec["post"]["bal"]["S"][0] += 1
    bad = ctx.path("corrupt.ndjson")
    with open(bad, "w") as f:
        f.write("\n".join(lines[:idx] + [json.dumps(rec)] + lines[idx + 1:]) + "\n")
    acc, n, _, _ = lib.tlc_validate(ctx, d, "Trace_Wallet", "Trace_Wallet.cfg", bad, env_extra=trace_env())
    if acc or n != idx + 1:
        raise lib.ToolError("selftest: corrupted balance at event %d not rejected there (got %s %s)" % (idx + 1, acc, n))
    drop = ctx.path("dropped.ndjson")
    with open(drop, "w") as f:
        f.write("\n".join(lines[:idx] + lines[idx + 1:]) + "\n")
    acc, n, _, _ = lib.tlc_validate(ctx, d, "Trace_Wallet", "Trace_Wallet.cfg", drop, env_extra=trace_env())
    if acc:
        raise lib.ToolError("selftest: dropped scan event not noticed")
    lib.log("selftest ok: corrupted balance rejected at its event; dropped event rejected at %d" % n)
    from . import c01_coins
    c01_coins.selftest_part(ctx)
