"""C06 — note commitment trees and witnesses agree with the chain (Wallet.tla + CommitmentTree.tla/TreeOps.tla).

1. TLC explores CommitmentTree.tla (checkpoint sets of the three pools under put_blocks batches of any
   boundaries, a retention grid, shardtree's checkpoint budget, rewinds): RetainedBoundaries, RetainedOwn,
   TruncateLaw, Bounded for the repaired design and what survives of them for the pinned update_tree;
   a third run documents the known finding (pinned tree violates RetainedBoundaries in the model).
2. The wallet driver of C01 is run with the tree projection on: after every operation the harness asks the
   real wallet for the root at (a sample of) its checkpoints and for Merkle paths of its notes and compares
   them with an independent per-pool frontier history of the chain it fabricated; TLC validates the trace
   against Trace_Wallet.tla: RootLaw, WitnessLaw (never a different root), aligned checkpoints modulo pruning,
   TruncateLaw, RetainedBoundaries.  Scenario libraries: more blocks than the checkpoint budget, one pool
   silent, small retention grids with empty boundary blocks, batches longer than the budget, and the minimal
   history of the stale-frontier finding.
Known findings (known_findings.json) are excused only while listed as open, and each use is reported.
"""
import json
import os

from . import lib
from . import c01

AREA = "Wallet"
KF_IDS = {"C06-stale-frontier-after-rewind": "KF_STALE", "C06-retained-boundary-lost": "KF_RETAIN",
          "C06-stale-subtree-root-after-reorg": "KF_STALEROOT"}


def kf_env():
    open_ids = {f["id"]: f for f in lib.load_known_findings() if f.get("property") == "C06" and f.get("status") == "open"}
    env = {v: ("1" if k in open_ids else "0") for k, v in KF_IDS.items()}
    return env, open_ids


def write_ct_cfg(path, maxh, budget, interval, floor, maxops, fix, inv):
    with open(path, "w") as f:
        f.write("SPECIFICATION Spec\nCONSTANTS\n  MaxH = %d\n  Budget = %d\n  Interval = %d\n  Floor = %d\n  MaxOps = %d\n"
                "  FixEnsure = %s\nINVARIANT %s\nCHECK_DEADLOCK FALSE\n" % (maxh, budget, interval, floor, maxops, fix, inv))


def drive(ctx, bindir, name, args, seed):
    path = ctx.path("trace_%s.ndjson" % name)
    lib.run_bin(os.path.join(bindir, "c01_driver"), [path] + args, env_extra={"VERIF_SEED": str(seed), "VERIF_TREES": "1"},
                timeout=3400)
    return path


def tree_stats(path, tot):
    with open(path) as f:
        for line in f:
            r = json.loads(line)
            p = r.get("post") or {}
            if not p.get("chk") or "trees" not in p:
                continue
            tot["projections"] = tot.get("projections", 0) + 1
            for pool in "SOI":
                t = p["trees"][pool]
                tot["max_checkpoints"] = max(tot.get("max_checkpoints", 0), len(t["ck"]))
                for _, v in t["roots"]:
                    tot["root_" + v] = tot.get("root_" + v, 0) + 1
                for w in t["wit"]:
                    tot["witness_" + w[2]] = tot.get("witness_" + w[2], 0) + 1
                tot["retained_seen"] = max(tot.get("retained_seen", 0), len(t["ret"]))
            if r["a"] == "trunc" and r["res"] == "ok":
                tot["rewinds"] = tot.get("rewinds", 0) + 1


def validate(ctx, d, path, what, env, open_ids):
    e = {"EXPLAIN": "0", "CHECK_LEDGER": "0", "CHECK_TREES": "1", "CHECK_LOCKS": "0"}
    e.update(env)
    acc, n, detail, r = lib.tlc_validate(ctx, d, "Trace_Wallet", "Trace_Wallet.cfg", path, timeout=3000, env_extra=e)
    used = set()
    for t in r.tuples("KNOWN"):
        used.add(t.split(",")[0].strip().strip('"'))
    for fid in sorted(used):
        lib.known_finding(ctx, "id=%s %s" % (fid, open_ids[fid]["what"][:260]))
    if acc:
        ctx.traces += n
        return True
    with open(path) as f:
        lines = f.read().splitlines()
    start = max(i for i in range(n) if json.loads(lines[i])["a"] == "reset")
    hist = [json.loads(x) for x in lines[start:n]]
    for h in hist[:-1]:
        if isinstance(h.get("post"), dict) and "trees" in h["post"]:
            h["post"]["trees"] = "(elided in replay; recomputed)"
    lib.violation(ctx, {"property": "C06", "kind": "trace_rejected", "what": what, "first_unmatched_event": n,
                        "event": json.loads(lines[n - 1]), "history_prefix": lines[start:n]},
                  "event %d of the recorded wallet history breaks a tree law of Trace_Wallet.tla (root / witness / "
                  "checkpoint alignment / retained boundary / truncation): %s" % (n, detail[:1200]))
    return False


def run(ctx):
    bindir = lib.cargo_build("h_wallet", ["c01_driver"])
    d = lib.stage_specs(ctx, AREA)
    lib.sany(os.path.join(d, "Trace_Wallet.tla"))
    lib.sany(os.path.join(d, "CommitmentTree.tla"))
    env, open_ids = kf_env()

    # (1) the checkpoint-set model
    big = not ctx.quick()
    write_ct_cfg(os.path.join(d, "CT_fixed.cfg"), 4, 2, 2, 2, 3 if big else 2, "TRUE", "Inv")
    write_ct_cfg(os.path.join(d, "CT_pinned.cfg"), 4, 2, 2, 2, 3 if big else 2, "FALSE", "InvPinned")
    write_ct_cfg(os.path.join(d, "CT_finding.cfg"), 4, 2, 2, 2, 2, "FALSE", "RetainedBoundaries")
    for cfg in ("CT_fixed.cfg", "CT_pinned.cfg"):
        r = lib.tlc(ctx, d, "CommitmentTree", cfg, workers=8, timeout=3400)
        lib.require_coverage(r, ["Next"])
        lib.account_tlc(ctx, r)
    r = lib.tlc(ctx, d, "CommitmentTree", "CT_finding.cfg", workers=4, timeout=600, expect_ok=False)
    ctx.extra["model_exhibits_retained_boundary_finding"] = (r.invariant == "RetainedBoundaries")
    if r.invariant != "RetainedBoundaries" and "C06-retained-boundary-lost" in open_ids:
        raise lib.ToolError("CommitmentTree.tla (pinned) no longer violates RetainedBoundaries although the finding is listed as open")

    # (2) traces of the real wallet with the tree projection
    plans = [("stale", ["stale-frontier-scenario"]),
             ("trees", ["tree-scenarios"] + (["all"] if big else [])),
             ("retention", ["retention-scenarios"] + (["all"] if big else [])),
             ("shards", ["shard-scenarios", "12" if big else "3"])]
    if big:
        plans += [("base%d" % i, ["14", "80"]) for i in range(3)] + [("ironwood%d" % i, ["14", "80", "ironwood"]) for i in range(3)]
    else:
        plans += [("base", ["6", "60"]), ("ironwood", ["5", "60", "ironwood"])]
    tot = {}
    for i, (name, args) in enumerate(plans):
        path = drive(ctx, bindir, name, args, ctx.seed * 100 + i)
        tree_stats(path, tot)
        if not validate(ctx, d, path, name, env, open_ids):
            break
    if not ctx.violations and (tot.get("root_ok", 0) < 500 or tot.get("witness_ok", 0) < 200 or tot.get("rewinds", 0) < 3
                               or tot.get("max_checkpoints", 0) <= 100):
        raise lib.ToolError("vacuity: too few tree comparisons: %s" % tot)
    ctx.extra["tree_stats"] = tot
    ctx.add_sample({"checkpoint_root_verdicts": {k: v for k, v in tot.items() if k.startswith("root_")},
                    "witness_verdicts": {k: v for k, v in tot.items() if k.startswith("witness_")}})
    lib.mc_evidence(
        ctx,
        rule="after every wallet operation of scenario and seeded random histories the harness compares the root the "
             "real wallet computes at a sample of its checkpoints, and the Merkle paths it produces for its notes, with an "
             "independent frontier history of the fabricated chain; TLC validates every event against the tree laws; "
             "distinct_nontrivial = root comparisons with verdict ok",
        evaluations=tot.get("projections", 0), distinct_nontrivial=tot.get("root_ok", 0),
        assumptions=["harness chain and its frontiers (incrementalmerkletree) are the oracle of the true roots",
                     "two known findings are excused while listed open in known_findings.json and reported on use",
                     "checkpoint alignment is claimed modulo pruning lag (a height present in one pool and absent in another lies "
                     "below the other pool's oldest unretained checkpoint)",
                     "shard boundaries: the wallet is born 2-3 commitments below the end of a 2^16-leaf shard of a random prior tree "
                     "(incrementalmerkletree's random frontier helper) and receives the roots of completed shards"])


def replay(ctx, path):
    bindir = lib.cargo_build("h_wallet", ["c01_driver"])
    d = lib.stage_specs(ctx, AREA)
    env, open_ids = kf_env()
    with open(path) as f:
        rep = json.load(f)
    tp = ctx.path("replay_trace.ndjson")
    with open(tp, "w") as f:
        f.write("\n".join(rep["history_prefix"]) + "\n")
    if validate(ctx, d, tp, "replay", env, open_ids):
        lib.log("replay: recorded history is accepted by the specification")


def selftest(ctx):
    bindir = lib.cargo_build("h_wallet", ["c01_driver"])
    d = lib.stage_specs(ctx, AREA)
    env, open_ids = kf_env()
    path = drive(ctx, bindir, "self", ["3", "40"], 5)
    with open(path) as f:
        lines = f.read().splitlines()
    recs = [json.loads(x) for x in lines]
    idx = [i for i, r in enumerate(recs) if r.get("post", {}).get("chk") and r["post"]["trees"]["S"]["roots"]][5]
    rec = recs[idx]
    rec["post"]["trees"]["S"]["roots"][0][1] = "wrong"
    bad = ctx.path("corrupt.ndjson")
    # cut the history before any rewind can taint it: corrupt an early event
    with open(bad, "w") as f:
        f.write("\n".join(lines[:idx] + [json.dumps(rec)] + lines[idx + 1:]) + "\n")
    e = {"EXPLAIN": "0", "CHECK_LEDGER": "0", "CHECK_TREES": "1", "CHECK_LOCKS": "0", "KF_STALE": "0", "KF_RETAIN": "0"}
    acc, n, _, _ = lib.tlc_validate(ctx, d, "Trace_Wallet", "Trace_Wallet.cfg", bad, env_extra=e)
    if acc or n != idx + 1:
        raise lib.ToolError("selftest: a wrong root verdict at event %d was not rejected there (%s, %s)" % (idx + 1, acc, n))
    lib.log("selftest ok: wrong-root verdict rejected at its event")
