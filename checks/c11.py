"""C11 — key encodings round-trip and derived addresses belong to their keys (spec/Address/Keys.tla).

1. TLC checks the theorems of Keys.tla over every derive/encode/decode path of <= MaxPath steps from a
   unified spending key x every component subset reachable by projection x the 27 custom requests and
   AllAvailableKeys x every index line (Sapling-invalid prefix, 2^31 boundary, top of the diversifier
   space): commutation, receivers = requested /\\ supported /\\ index-valid, FindAddress = first success
   over Sapling-invalid indices only, DecryptDiversifiers recovers the index.
2. R (spec -> code): TLC prints the paths, the decision table, the codec table (which network pairs read
   back) and the gap-limit list table; harness/h_keys/src/bin/c11_replay.rs materialises them on real
   keys (seeded seeds x accounts {0, 1, 2^31-1} x 3 networks, plus accounts searched for the rare index
   patterns) and compares class and receiver sets with the prediction and all key / receiver bytes with
   an independent derivation from the seed; real Sapling / Orchard / Ironwood note encryption to the
   derived receivers gives the decryption clause.
3. Legacy transparent secret keys (spec/Address/LegacyKey.tla, zcashd's WIF form; zcash_keys feature
   `transparent-key-encoding`): TLC enumerates (key bytes x prefix byte x payload shape x checksum state x decoding
   network) with the predicted verdict and checks the round-trip theorems on the abstract codec;
   harness/h_keys/src/bin/c11_legacy.rs materialises every case with its own SHA-256 / base 58 and runs
   Key::{decode_base58, encode_base58, der_encode, der_decode, pubkey}.
"""
import json
import os

from . import lib

AREA = "Address"
STEP_KINDS = ["ToBytes", "FromBytes", "FromBytesOtherEra", "DeriveFvk", "DeriveIvk", "Project", "Encode",
              "Decode", "Parse"]
SECTION_TEXT = {
    "paths": "derive/encode/decode path",
    "case": "Address/FindAddress/DecryptDiversifiers case",
    "decrypt": "decryption clause",
    "bip44": "BIP 44 derivation",
    "codec": "string codec",
    "gap": "gap-limit address list",
    "meet": "request intersection",
}


def write_cfg(path, mode, maxpath, maxline, tables, inv=False):
    with open(path, "w") as f:
        f.write("SPECIFICATION MCSpec\nCONSTANTS\n  MaxPath = %d\n  MaxLine = %d\n  Mode = \"%s\"\n  EmitTables = %s\n"
                % (maxpath, maxline, mode, "TRUE" if tables else "FALSE"))
        if inv:
            f.write("INVARIANT Theorems\n")
        f.write("CHECK_DEADLOCK FALSE\n")


def bounds(ctx):
    # (MaxPath, MaxLine)
    return (5, 3) if ctx.quick() else (6, 4)


def emit(ctx, d, maxpath, maxline):
    """Runs the two emitting configurations; returns (paths, cases, tables, [TlcResult])."""
    write_cfg(os.path.join(d, "Emit_P.cfg"), "paths", maxpath, 1, True)
    rp = lib.tlc(ctx, d, "MC_Keys", "Emit_P.cfg", workers=1, timeout=900, coverage=False)
    write_cfg(os.path.join(d, "Emit_C.cfg"), "cases", 0, maxline, False)
    rc = lib.tlc(ctx, d, "MC_Keys", "Emit_C.cfg", workers=1, timeout=900, coverage=False)
    paths = rp.prints("PATH")
    cases = rc.prints("CASE")
    tables = []
    for t in ("CODEC", "GAP", "MEET"):
        for r in rp.prints(t):
            r["table"] = t
            tables.append(r)
    return paths, cases, tables, [rp, rc]


def vacuity(paths, cases, tables):
    kinds = set(s["a"] for p in paths for s in p["path"])
    missing = [k for k in STEP_KINDS if k not in kinds]
    if missing:
        raise lib.ToolError("vacuity: step kinds never on an emitted path: %s" % missing)
    if not any(not p["ok"] for p in paths) or not any(p["ok"] and p["lvl"] == "UIVK" for p in paths):
        raise lib.ToolError("vacuity: no rejecting path / no UIVK endpoint emitted")
    for k in ("ok", "err", "badreq"):
        if not any(c["addr"]["k"] == k for c in cases):
            raise lib.ToolError("vacuity: no case with address class %s" % k)
    if not any(len(c["find"]) > 1 for c in cases) or \
            not any(f["k"] == "ok" and f["at"] > 1 for c in cases for f in c["find"]):
        raise lib.ToolError("vacuity: FindAddress never searches / is never relational")
    if len(set(tuple(sorted(c["comps"])) for c in cases)) != 8:
        raise lib.ToolError("vacuity: not all 8 component subsets in the decision table")
    if not any(t["table"] == "CODEC" and not t["ok"] for t in tables) or \
            not any(t["table"] == "GAP" and "ua" in t["allowed"] for t in tables) or \
            len(set(t["res"]["k"] for t in tables if t["table"] == "MEET")) != 3:
        raise lib.ToolError("vacuity: codec / gap tables degenerate")


def write_inputs(ctx, paths, cases, tables, name=""):
    out = []
    for nm, rows in (("paths", paths), ("cases", cases), ("tables", tables)):
        p = ctx.path("%s%s.ndjson" % (nm, name))
        with open(p, "w") as f:
            for r in rows:
                f.write(json.dumps(r) + "\n")
        out.append(p)
    return out


def harness(ctx, bindir, files, cfg, name="cfg.json", timeout=2400):
    cp = ctx.path(name)
    with open(cp, "w") as f:
        json.dump(cfg, f)
    p = lib.run_bin(os.path.join(bindir, "c11_replay"), files + [cp], timeout=timeout)
    return json.loads(p.stdout.strip().splitlines()[-1])


def harness_cfg(ctx, maxline):
    if ctx.quick():
        return {"seed": ctx.seed, "n_seeds": 2, "sample_mod": 12, "idx_per_line": 2, "gap_mod": 8, "threads": 8,
                "max_line": maxline}
    return {"seed": ctx.seed, "n_seeds": 8, "sample_mod": 4, "idx_per_line": 3, "gap_mod": 2, "threads": 8,
            "max_line": maxline}


def report(ctx, res, maxpath, maxline):
    seen = set()
    for m in res["mismatches"]:
        key = (m["section"], m["what"][:80])
        if key in seen or len(seen) >= 3:
            continue
        seen.add(key)
        k = m["key"]
        lib.violation(ctx, {"property": "C11", "section": m["section"], "key": k, "what": m["what"],
                            "detail": m["detail"], "maxpath": maxpath, "maxline": maxline},
                      "%s disagrees with Keys.tla on the key (seed %s.., account %d, %s): %s | %s"
                      % (SECTION_TEXT.get(m["section"], m["section"]), k["seed_hex"][:16], k["account"], k["net"],
                         m["what"], json.dumps(m["detail"])[:900]))


# ---------------------------------------------------------------------------------------------------------
# legacy transparent secret key encodings (LegacyKey.tla)

LEGACY_CLASSES = ["accept_compressed", "accept_uncompressed", "ck:bad", "ck:badchar", "len:s0", "len:s1", "len:s32",
                  "len:s35", "prefix:other_network", "prefix:nobody", "marker:s34_0", "marker:s34_2", "key:zero",
                  "key:order", "key:np1", "key:max"]


def legacy_class(c, prefixes):
    """Why a CASE record is refused (bookkeeping for the vacuity guard only; the verdict itself is TLC's)."""
    if c["ok"]:
        return "accept_compressed" if c["compressed"] else "accept_uncompressed"
    if c["ck"] != "ok":
        return "ck:" + c["ck"]
    if c["shape"] in ("s0", "s1", "s32", "s35"):
        return "len:" + c["shape"]
    if c["pfx"] != prefixes[c["net"]]:
        return "prefix:other_network" if c["pfx"] in prefixes.values() else "prefix:nobody"
    if c["shape"] in ("s34_0", "s34_2"):
        return "marker:" + c["shape"]
    return "key:" + c["key"]


def legacy_emit(ctx, d):
    lib.sany(os.path.join(d, "LegacyKey.tla"))
    lib.sany(os.path.join(d, "MC_LegacyKey.tla"))
    r = lib.tlc(ctx, d, "MC_LegacyKey", "MC_LegacyKey.cfg", workers=1, timeout=300, coverage=False)
    recs = []
    for t in ("CASE", "ENC", "CONST"):
        for x in r.prints(t):
            x["table"] = t
            recs.append(x)
    cases = [x for x in recs if x["table"] == "CASE"]
    consts = [x for x in recs if x["table"] == "CONST"]
    if len(consts) != 1 or len([x for x in recs if x["table"] == "ENC"]) != 18:
        raise lib.ToolError("legacy key tables missing from TLC's output")
    seen = set(legacy_class(c, consts[0]["prefix"]) for c in cases)
    missing = [k for k in LEGACY_CLASSES if k not in seen]
    if missing or sum(1 for c in cases if c["ok"] and not c["compressed"]) < 9 \
            or sum(1 for c in cases if c["ok"] and c["compressed"]) < 9:
        raise lib.ToolError("vacuity: legacy key case classes never emitted: %s" % missing)
    return recs, r


def legacy_harness(ctx, bindir, recs, seed, reps, name="legacy"):
    p = ctx.path("%s.ndjson" % name)
    with open(p, "w") as f:
        for r in recs:
            f.write(json.dumps(r) + "\n")
    cp = ctx.path("%s_cfg.json" % name)
    with open(cp, "w") as f:
        json.dump({"seed": seed, "reps": reps}, f)
    out = lib.run_bin(os.path.join(bindir, "c11_legacy"), [p, cp], timeout=600)
    return json.loads(out.stdout.strip().splitlines()[-1])


def legacy_report(ctx, res, seed, reps, limit=3):
    seen = set()
    for m in res["mismatches"]:
        if m["what"] in seen or len(seen) >= limit:
            continue
        seen.add(m["what"])
        lib.violation(ctx, {"property": "C11", "section": "legacy", "what": m["what"], "detail": m["detail"],
                            "seed": seed, "reps": reps},
                      "legacy transparent secret key encoding disagrees with LegacyKey.tla: %s | %s"
                      % (m["what"], json.dumps(m["detail"])[:900]))


def legacy_reps(ctx):
    return 16 if ctx.quick() else 128


def legacy_run(ctx, bindir, d):
    recs, r = legacy_emit(ctx, d)
    lib.account_tlc(ctx, r)
    reps = legacy_reps(ctx)
    res = legacy_harness(ctx, bindir, recs, ctx.seed, reps)
    c = res["counts"]
    ncase = sum(1 for x in recs if x["table"] == "CASE")
    if not res["mismatches"] and (c.get("accepted_uncompressed", 0) < 6 + 3 * reps
                                  or c.get("accepted_compressed", 0) < 6 + 3 * reps
                                  or c.get("decode_calls", 0) < ncase or c.get("enc_cases", 0) < 18
                                  or c.get("cross_decodes", 0) < 30 or c.get("key_checks", 0) < 60):
        raise lib.ToolError("vacuity: legacy key harness executed too little: %s" % c)
    legacy_report(ctx, res, ctx.seed, reps)
    ctx.extra["legacy_key_counts"] = c
    ctx.add_sample(next(x for x in recs if x["table"] == "CASE" and x["ok"] and not x["compressed"]))
    return c.get("decode_calls", 0) + c.get("key_checks", 0)


def run(ctx):
    bindir = lib.cargo_build("h_keys", ["c11_replay", "c11_legacy"])
    d = lib.stage_specs(ctx, AREA)
    lib.sany(os.path.join(d, "Keys.tla"))
    lib.sany(os.path.join(d, "MC_Keys.tla"))
    maxpath, maxline = bounds(ctx)

    # (0) legacy transparent secret key encodings (cheap; own specification module)
    legacy_traces = legacy_run(ctx, bindir, d)

    # (1) the theorems, on every path x request x line
    write_cfg(os.path.join(d, "MC_run.cfg"), "mc", maxpath, maxline, False, inv=True)
    r = lib.tlc(ctx, d, "MC_Keys", "MC_run.cfg", workers=8, timeout=1500, coverage=False)
    lib.account_tlc(ctx, r)

    # (2) emission and replay on real keys
    paths, cases, tables, rs = emit(ctx, d, maxpath, maxline)
    for x in rs:
        lib.account_tlc(ctx, x)
    vacuity(paths, cases, tables)
    files = write_inputs(ctx, paths, cases, tables)
    res = harness(ctx, bindir, files, harness_cfg(ctx, maxline))
    if res["missing_lines"]:
        raise lib.ToolError("vacuity: index lines never realised on a real key: %s" % res["missing_lines"])
    c = res["counts"]
    if c.get("keys", 0) < res["keys"] or c.get("case_evaluations", 0) < 1000 or c.get("notes_encrypted", 0) < 10 \
            or c.get("gap_cases", 0) < 100 or c.get("codec_cases", 0) < 63 or c.get("meet_cases", 0) < 576 or c.get("paths", 0) < len(paths):
        if not res["mismatches"]:
            raise lib.ToolError("vacuity: harness executed too little: %s" % c)
    report(ctx, res, maxpath, maxline)

    ctx.traces = c.get("paths", 0) + c.get("case_evaluations", 0) + c.get("gap_cases", 0) + c.get("codec_cases", 0) \
        + c.get("notes_encrypted", 0) + c.get("bip44_derivations", 0) + c.get("meet_cases", 0) + legacy_traces
    ctx.add_sample({"path": [s["a"] for s in paths[len(paths) // 2]["path"]], "lvl": paths[len(paths) // 2]["lvl"],
                    "comps": paths[len(paths) // 2]["comps"], "ok": paths[len(paths) // 2]["ok"]})
    for i in (len(cases) // 3, 2 * len(cases) // 3, len(cases) - 5):
        ctx.add_sample(cases[i])
    ctx.add_sample({"real_key": res["key_list"][0]})
    ctx.extra["harness_counts"] = c
    ctx.extra["line_signatures_realised_on_keys"] = res.get("line_keys", {})
    lib.mc_evidence(
        ctx,
        rule="every path of <= %d derive/encode/decode steps from a USK (%d paths incl. rejecting ones) is executed on "
             "every real key; the decision table (8 component subsets x 28 requests x %d index lines = %d cases) is "
             "evaluated with address/find_address/decrypt_diversifiers on the shortest endpoint of every (level, "
             "components) pair in full and on every other endpoint by a 1/%d sample; distinct_nontrivial = distinct "
             "(components, receiver set) / find offsets / gap classes observed on the real code"
             % (maxpath, len(paths), len(set(json.dumps([x["line"], x["end"]]) for x in cases)), len(cases),
                harness_cfg(ctx, maxline)["sample_mod"]),
        evaluations=ctx.traces, distinct_nontrivial=res["distinct_results"],
        extra={"exhaustive": True, "bounds": {"MaxPath": maxpath, "MaxLine": maxline}, "real_keys": res["keys"]},
        assumptions=["ZIP 32 / BIP 32 derivation values are taken from the sapling-crypto, orchard and bip32 crates called "
                     "directly on the seed (independent of zcash_keys / zcash_transparent, not re-derived from the ZIPs)",
                     "error variants are compared by class only",
                     "FindAddress is relational where an *allowed* Sapling receiver at an invalid index leaves no shielded "
                     "receiver (the code fails there; continuing the search would also be accepted)",
                     "string encodings of keys without a shielded item are undefined (ZIP 316) and not exercised"])


def replay(ctx, path):
    with open(path) as f:
        rep = json.load(f)
    if rep.get("section") == "legacy":
        bindir = lib.cargo_build("h_keys", ["c11_legacy"])
        d = lib.stage_specs(ctx, AREA)
        recs, _ = legacy_emit(ctx, d)
        res = legacy_harness(ctx, bindir, recs, rep["seed"], rep["reps"], name="legacy_replay")
        same = [m for m in res["mismatches"] if m["what"] == rep["what"]] or res["mismatches"]
        if same:
            res["mismatches"] = same[:1]
            legacy_report(ctx, res, rep["seed"], rep["reps"])
        else:
            lib.log("replay: the real code now agrees with the specification on the legacy key cases")
        return
    bindir = lib.cargo_build("h_keys", ["c11_replay"])
    d = lib.stage_specs(ctx, AREA)
    maxpath, maxline = rep.get("maxpath", 5), rep.get("maxline", 3)
    paths, cases, tables, _ = emit(ctx, d, maxpath, maxline)
    files = write_inputs(ctx, paths, cases, tables)
    sec = "paths" if rep["section"] == "case" else rep["section"]
    cfg = {"seed": 1, "sample_mod": 1, "idx_per_line": 3, "gap_mod": 1, "threads": 1, "max_line": maxline,
           "only_keys": [rep["key"]], "sections": [sec]}
    res = harness(ctx, bindir, files, cfg)
    ms = [m for m in res["mismatches"] if m["section"] == rep["section"]] or res["mismatches"]
    same = [m for m in ms if m["what"] == rep["what"]] or ms
    if same:
        res["mismatches"] = same[:1]
        report(ctx, res, maxpath, maxline)
    else:
        lib.log("replay: the real code now agrees with the specification on this key")


def legacy_selftest(ctx, bindir, d):
    recs, _ = legacy_emit(ctx, d)
    res = legacy_harness(ctx, bindir, recs, ctx.seed, 2, name="legacy_st_clean")
    if res["mismatches"]:
        raise lib.ToolError("selftest: unperturbed legacy key cases are reported: %s" % res["mismatches"][0]["what"])

    def perturbed(name, pick, change):
        r2 = json.loads(json.dumps(recs))
        i = next(i for i, x in enumerate(r2) if pick(x))
        change(r2[i])
        return legacy_harness(ctx, bindir, r2, ctx.seed, 2, name="legacy_st_" + name)["mismatches"]

    def case(x, **kw):
        return x["table"] == "CASE" and all(x[k] == v for k, v in kw.items())

    # an accepted uncompressed string predicted as refused; a refused marker byte predicted as accepted; the
    # compressed flag flipped; the prefix byte of an encoding changed; a cross-network verdict flipped
    tests = [
        ("reject", lambda x: case(x, ok=True, compressed=False, key="nm1", net="main"), lambda x: x.update(ok=False)),
        ("accept", lambda x: case(x, shape="s34_2", ck="ok", key="one", pfx=239, net="test"),
         lambda x: x.update(ok=True, compressed=True)),
        ("flag", lambda x: case(x, ok=True, compressed=True, key="one"), lambda x: x.update(compressed=False)),
        ("encbyte", lambda x: x["table"] == "ENC" and not x["compressed"] and x["key"] == "one",
         lambda x: x["payload"].__setitem__(0, 129)),
        ("cross", lambda x: x["table"] == "ENC" and x["net"] == "test", lambda x: x["dec"].update(regtest=False)),
    ]
    for name, pick, change in tests:
        if not perturbed(name, pick, change):
            raise lib.ToolError("selftest: perturbed legacy key prediction (%s) was not reported" % name)
    lib.log("selftest ok (legacy keys): perturbed verdicts, compressed flag, encoding payload and cross-network entry all reported")


def selftest(ctx):
    """Binding demonstration (R): perturb one expected value per table; the harness must report it."""
    bindir = lib.cargo_build("h_keys", ["c11_replay", "c11_legacy"])
    d = lib.stage_specs(ctx, AREA)
    legacy_selftest(ctx, bindir, d)
    paths, cases, tables, _ = emit(ctx, d, 4, 3)
    key = {"seed_hex": "%064x" % (0x1234567 + ctx.seed), "account": 1, "net": "test"}
    base = {"seed": 1, "sample_mod": 6, "idx_per_line": 1, "gap_mod": 4, "threads": 2, "max_line": 3, "only_keys": [key]}

    def expect(name, p, c, t, sections, section_hit):
        files = write_inputs(ctx, p, c, t, name="_" + name)
        cfg = dict(base)
        cfg["sections"] = sections
        res = harness(ctx, bindir, files, cfg, name="cfg_%s.json" % name)
        hit = [m for m in res["mismatches"] if m["section"] == section_hit]
        return res, hit

    res, hit = expect("clean", paths, cases, tables, ["paths", "codec", "gap", "decrypt", "bip44", "meet"], "case")
    if res["mismatches"]:
        raise lib.ToolError("selftest: unperturbed inputs are reported: %s" % res["mismatches"][0]["what"])

    # (a) one receiver dropped from an expected address
    c2 = json.loads(json.dumps(cases))
    i = next(i for i, c in enumerate(c2) if c["addr"]["k"] == "ok" and len(c["addr"]["recv"]) == 3
             and c["line"] == [[True, True]])
    c2[i]["addr"]["recv"] = [x for x in c2[i]["addr"]["recv"] if x != "s"]
    _, hit = expect("recv", paths, c2, tables, ["paths"], "case")
    if not hit:
        raise lib.ToolError("selftest: a dropped expected receiver was not reported")
    # (b) an error expected where the rule gives an address; a FindAddress offset moved
    c3 = json.loads(json.dumps(cases))
    i = next(i for i, c in enumerate(c3) if any(f["k"] == "ok" and f["at"] == 2 for f in c["find"]) and len(c["find"]) == 1)
    c3[i]["find"][0]["at"] = 1
    _, hit = expect("find", paths, c3, tables, ["paths"], "case")
    if not hit:
        raise lib.ToolError("selftest: a moved FindAddress offset was not reported")
    # (c) a rejecting path expected to be accepted, a component added to an endpoint
    p2 = json.loads(json.dumps(paths))
    i = next(i for i, p in enumerate(p2) if not p["ok"] and p["path"][-1]["a"] == "Decode")
    p2[i]["ok"] = True
    j = next(j for j, p in enumerate(p2) if p["ok"] and sorted(p["comps"]) == ["o", "t"])
    p2[j]["comps"] = ["o", "s", "t"]
    _, hit = expect("path", p2, cases, tables, ["paths"], "paths")
    if len(set(m["what"][:30] for m in hit)) < 2:
        raise lib.ToolError("selftest: perturbed path verdict / component set was not reported")
    # (d) codec and gap tables
    t2 = json.loads(json.dumps(tables))
    for t in t2:
        if t["table"] == "CODEC" and t["kind"] == "taddr" and t["enc"] == "test" and t["dec"] == "regtest":
            t["ok"] = False
    _, hit = expect("codec", paths, cases, t2, ["codec"], "codec")
    if not hit:
        raise lib.ToolError("selftest: perturbed codec table was not reported")
    t3 = json.loads(json.dumps(tables))
    for t in t3:
        if t["table"] == "GAP" and t["scope"] == "internal" and t["allowed"] == ["taddr"]:
            t["change"] = 2
    _, hit = expect("gap", paths, cases, t3, ["gap"], "gap")
    if not hit:
        raise lib.ToolError("selftest: perturbed BIP 44 change level was not reported")
    t4 = json.loads(json.dumps(tables))
    i = next(i for i, t in enumerate(t4) if t["table"] == "MEET" and t["res"]["k"] == "ok" and t["res"]["t"] == "Allow")
    t4[i]["res"]["t"] = "Require"
    _, hit = expect("meet", paths, cases, t4, ["meet"], "meet")
    if not hit:
        raise lib.ToolError("selftest: perturbed request intersection was not reported")
    lib.log("selftest ok: perturbed receiver set, find offset, path verdict, component set, codec and gap entries all reported")
