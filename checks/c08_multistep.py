"""C08, multi-step proposals ("in EVERY STEP the selected input value equals payments plus change plus fee"):
MultiStep.tla / MC_MultiStep.tla / Trace_MultiStep.tla.

The only multi-step proposals the wallet itself produces are ZIP 320 pairs: with `transparent-inputs`, propose_transfer to
a TEX address answers with step 0 = wallet funds -> an EPHEMERAL transparent output of the wallet (+ change), step 1 = that
output -> the TEX recipient; create_proposed_transactions builds and stores BOTH transactions.

1. TLC explores MC_MultiStep.tla: every proposal of up to three balanced steps over a tiny wallet (steps may select a note
   an earlier step selected, refer forwards / to nothing / with a wrong value / to ordinary change, consume an output twice,
   pay a TEX recipient out of notes, leave an ephemeral output unspent).  Theorems: per-step balance + right references +
   no output consumed twice => the proposal conserves value; Valid => the DISTINCT notes and coins are worth payments +
   final change + fees; ZIP 320 consequences.  Four further runs must each end in a counterexample: two probes (a valid
   ZIP 320 pair and a valid three-step chain exist in the enumeration) and two SPEC MUTANTS (conservation without "no
   output consumed twice"; the double-spend set kept per step instead of shared by all steps - one note funds two steps).
2. The C01 coin driver (harness package h_wallet_t, bin c01t_driver, modes `tex-scenarios` / `tex`) interleaves the wallet
   histories of C01 / C08 (blocks, scans, tips, rewinds, UTXO reports, full transactions, shielding and coin-funded
   proposals, locks on notes and coins) with real propose_transfer calls whose request names TEX recipients - alone, two
   of them, next to a Sapling / unified / plain transparent recipient, in either order; amounts tiny / a fraction / nearly
   everything / too much; funded from every shielded pool, Sapling only, coins only, notes and coins; confirmation
   policies; lock requests and selector lock policies - logs EVERY step of the proposal, has a part of them created
   (create_proposed_transactions, mock Sapling provers, real transparent signatures; expiry default / at once / a little
   later / never), reads every stored transaction back (nullifiers, trial-decrypted outputs, transparent inputs and
   outputs), and lets the environment mine both transactions, only the first, both in one block, reported by scan and by
   status update in either order - or lets them expire.
   Every event is validated by TLC against Trace_MultiStep.tla (EXTENDS Trace_Coins): the laws of MultiStep.tla hold for the
   logged steps; every note / coin of every step is eligible by the SAME Eligible / EligibleCoin definitions single-step
   proposals are judged by; the outside payments are exactly the requested ones; a lock request locks exactly the
   wallet-owned inputs of all steps, all or nothing; refusals relational; after create the first transaction spends exactly
   step 0's notes and coins, the second spends exactly the ephemeral outpoint the first created and pays the TEX script
   the request named with the requested amount, inputs = outputs + fee for each transaction, and the notes are out of the
   ledger and ineligible until expiry (Create of Wallet.tla).  Ephemeral outputs are exempt from the coin ledger comparison
   (the wallet keeps them out of balances and selection; how it accounts for them is not C08).

Called from checks/c08.py: run_part(ctx) -> stats, selftest_part(ctx), replay_part(ctx, replay_object).
"""
import json
import os

from . import lib
from . import c01_coins

AREA = "Wallet"
BIN = c01_coins.BIN
KIND = "multistep_trace_rejected"
MODULE = "Trace_MultiStep"
CFG = "Trace_MultiStep.cfg"
PROBES = ("ProbeNoZip320Pair", "ProbeNoThreeSteps")
SPEC_MUTANTS = ("MutConservesWithoutB2", "MutPerStepDoubleSpend")


def trace_env(explain=False):
    env = dict(c01_coins.trace_env(explain=explain))
    env["CHECK_LOCKS"] = "1"          # ptex / ctex / untex / lock events carry the note-lock projection
    return env


def write_mc_cfg(path, inv, steps=3):
    with open(path, "w") as f:
        f.write("SPECIFICATION Spec\nCONSTANTS\n  MaxSteps = %d\nINVARIANT %s\nCHECK_DEADLOCK FALSE\n" % (steps, inv))


def model_part(ctx, d):
    write_mc_cfg(os.path.join(d, "MC_MultiStep_gen.cfg"), "Inv")
    r = lib.tlc(ctx, d, "MC_MultiStep", "MC_MultiStep_gen.cfg", workers=8, timeout=900)
    if r.depth < 4 or r.distinct < 20000:
        raise lib.ToolError("vacuity: MC_MultiStep explored %d proposals, depth %d" % (r.distinct, r.depth))
    lib.account_tlc(ctx, r)
    refuted = {}
    for inv in PROBES + SPEC_MUTANTS:
        cfg = "MC_MultiStep_%s.cfg" % inv
        write_mc_cfg(os.path.join(d, cfg), inv)
        m = lib.tlc(ctx, d, "MC_MultiStep", cfg, workers=4, timeout=600, coverage=False, expect_ok=False)
        if m.ok or m.invariant != inv:
            kind = "probe" if inv in PROBES else "spec mutant"
            raise lib.ToolError("MC_MultiStep: the %s %s was not refuted (ok=%s, violated=%s): the enumeration is vacuous "
                                "for it" % (kind, inv, m.ok, m.invariant))
        refuted[inv] = m.generated
    return {"proposals_enumerated": r.distinct, "refuted": refuted}


def drive(ctx, bindir, name, args, seed):
    path = ctx.path("mtrace_%s.ndjson" % name)
    lib.run_bin(os.path.join(bindir, BIN), [path] + [str(a) for a in args], env_extra={"VERIF_SEED": str(seed)}, timeout=3000)
    return path


def _is_tex(p):
    return p["k"] == "tex"


def trace_stats(path):
    keys = ("events", "histories", "requests", "requests_tex", "ok", "ok_two_step", "ok_single_step", "two_step_two_tex", "two_step_with_shielded_payment",
            "two_step_with_transparent_payment", "listed_other_accounts_address_with_coin", "two_step_coins_selected", "two_step_notes_and_coins", "two_step_coins_only", "two_step_with_lock",
            "two_step_through_admitted_lock", "two_step_no_shielded_change", "two_step_sapling_only", "two_step_several_pools", "two_step_ironwood_era",
            "notes_selected", "coins_selected", "steps_judged", "refused_insufficient_tex", "refused_insufficient_other", "refused_inputs_locked",
            "refused_scan_required", "refused_pools_mismatch", "refused_other", "amount_one_above_balance_refused", "creates_ok", "created_pairs", "created_single",
            "creates_refused", "created_pair_with_shielded_payment", "created_pair_two_tex", "created_never_expiring", "created_early_expiry",
            "first_mined_in_block", "second_mined_in_block", "pair_in_one_block", "status_first", "status_second",
            "ephemeral_rows_spent_by_second", "ephemeral_rows_unspent", "untex", "note_lock_ok", "note_lock_failure", "states_with_note_locks",
            "states_with_pending_pair", "distinct_judgements")
    st = {k: 0 for k in keys}
    seen = set()
    firsts, seconds, pair_of = set(), set(), {}
    mined = set()
    sample = None
    with open(path) as f:
        for line in f:
            r = json.loads(line)
            st["events"] += 1
            a = r["a"]
            if a == "reset":
                st["histories"] += 1
                firsts, seconds, pair_of, mined = set(), set(), {}, set()
                ironwood = bool(r.get("ironwood"))
            elif a == "ptex":
                st["requests"] += 1
                tex = any(_is_tex(p) for p in r["pays"])
                st["requests_tex"] += 1 if tex else 0
                # an address list naming the other account's address while that account holds an economic coin: a dropped account filter would take it
                st["listed_other_accounts_address_with_coin"] += 1 if r["tp"] == 2 and 2 in r["addrs"] and any(
                    x["acct"] == 2 and x["v"] > 5000 and x["mined"] != -1 and not x["sp"] for x in r["coins"]["rows"]) else 0
                if r["res"] == "ok":
                    steps = r["p"]["steps"]
                    st["ok"] += 1
                    st["steps_judged"] += len(steps)
                    notes = [n for s in steps for n in s["notes"]]
                    coins = [c for s in steps for c in s["coins"]]
                    st["notes_selected"] += len(notes)
                    st["coins_selected"] += len(coins)
                    if len(steps) >= 2:
                        st["ok_two_step"] += 1
                        st["two_step_two_tex"] += 1 if sum(1 for p in r["pays"] if _is_tex(p)) >= 2 else 0
                        st["two_step_with_shielded_payment"] += 1 if any(p["k"] in ("zs", "ua") for p in r["pays"]) else 0
                        st["two_step_with_transparent_payment"] += 1 if any(p["k"] == "t" for p in r["pays"]) else 0
                        st["two_step_coins_selected"] += len(coins)
                        st["two_step_notes_and_coins"] += 1 if coins and notes else 0
                        st["two_step_coins_only"] += 1 if coins and not notes else 0
                        st["two_step_with_lock"] += 1 if r["lock"][0] >= 0 else 0
                        st["two_step_through_admitted_lock"] += 1 if r["admitted"] and r["lock"][0] < 0 and _draws_through(r) else 0
                        st["two_step_no_shielded_change"] += 1 if not any(c["pool"] != "T" for c in steps[0]["change"]) else 0
                        st["two_step_sapling_only"] += 1 if r["pools"] == ["S"] else 0
                        st["two_step_several_pools"] += 1 if len({n[2] for n in notes}) > 1 else 0
                        st["two_step_ironwood_era"] += 1 if ironwood else 0
                        if sample is None and len(notes) >= 2 and r["lock"][0] >= 0:
                            sample = {k: r[k] for k in ("a", "res", "pays", "trusted", "untrusted", "pools", "tp", "lock", "admitted", "p")}
                    else:
                        st["ok_single_step"] += 1
                    seen.add(json.dumps([r["pays"], sorted(n[0] for n in notes), sorted(c[0] for c in coins), r["trusted"], r["untrusted"], r["zc"],
                                         r["pools"], r["tp"], r["admitted"], r["post"]["tip"]]))
                else:
                    k = {"insufficient": "refused_insufficient_tex" if tex else "refused_insufficient_other", "inputs-locked": "refused_inputs_locked",
                         "scan-required": "refused_scan_required", "pools-mismatch": "refused_pools_mismatch"}.get(r["res"], "refused_other")
                    st[k] += 1
                    bal = sum(r["post"]["bal"][0][p][0] for p in ("S", "O", "I")) if r["post"].get("balp") else None
                    if tex and r["res"] == "insufficient" and bal is not None and sum(p["v"] for p in r["pays"]) > bal:
                        st["amount_one_above_balance_refused"] += 1
            elif a == "ctex":
                if r["res"] == "ok":
                    st["creates_ok"] += 1
                    if len(r["txs"]) >= 2:
                        st["created_pairs"] += 1
                        firsts.add(r["txs"][0]["t"])
                        seconds.add(r["txs"][1]["t"])
                        pair_of[r["txs"][1]["t"]] = r["txs"][0]["t"]
                        pays = [p for s in r["steps"] for p in s["pays"]]
                        st["created_pair_with_shielded_payment"] += 1 if any(p["pool"] != "T" for p in pays) else 0
                        st["created_pair_two_tex"] += 1 if sum(1 for p in pays if _is_tex(p)) >= 2 else 0
                    else:
                        st["created_single"] += 1
                    st["created_never_expiring"] += 1 if r["txs"][0]["exp"] == -100 else 0
                    st["created_early_expiry"] += 1 if r["expreq"] >= 0 else 0
                else:
                    st["creates_refused"] += 1
            elif a == "block":
                ts = [t["t"] for t in r["txs"]]
                for t in ts:
                    if t in firsts:
                        st["first_mined_in_block"] += 1
                        mined.add(t)
                    if t in seconds:
                        st["second_mined_in_block"] += 1
                        st["pair_in_one_block"] += 1 if pair_of[t] in ts else 0
            elif a == "txstatus" and r["t"] >= 100000 and r["res"] == "ok":
                st["status_first"] += 1 if r["t"] - 100000 in firsts else 0
                st["status_second"] += 1 if r["t"] - 100000 in seconds else 0
            elif a == "untex":
                st["untex"] += 1
            elif a == "lock":
                st["note_lock_ok" if r["res"] == "ok" else "note_lock_failure"] += 1
            post = r.get("post") or {}
            if post.get("chk") and post.get("locks", {}).get("rows"):
                st["states_with_note_locks"] += 1
            cp = r.get("coins")
            if cp and cp.get("chk") and a in ("ptex", "ctex"):
                eph = cp.get("eph", [])
                st["ephemeral_rows_spent_by_second"] += sum(1 for e in eph if e["sp"])
                st["ephemeral_rows_unspent"] += sum(1 for e in eph if not e["sp"])
                st["states_with_pending_pair"] += 1 if any(e["mined"] == -1 for e in eph) else 0
    st["distinct_judgements"] = len(seen)
    return st, sample


def _draws_through(r):
    """An accepted proposal under a selector policy that admits owner 0 selected a note / coin that owner 0 had locked."""
    locked_n = {x[0] for x in r["post"]["locks"]["rows"] if x[1] == 0}
    locked_c = {x[0] for x in r["coins"]["locks"]["rows"] if x[1] == 0}
    return any(n[0] in locked_n for s in r["p"]["steps"] for n in s["notes"]) or any(c[0] in locked_c for s in r["p"]["steps"] for c in s["coins"])


def _explain(ctx, d, lines, start, n):
    import re
    try:
        cut = ctx.path("mtrace_rejected_history.ndjson")
        with open(cut, "w") as f:
            f.write("\n".join(lines[start:n]) + "\n")
        _, _, _, r = lib.tlc_validate(ctx, d, MODULE, CFG, cut, timeout=600, env_extra=trace_env(explain=True))
        hits = [m.start() for m in re.finditer(r'<<\s*"EXPLAIN[CP]?",\s+%d,' % (n - start), r.out)]
        if hits:
            return " ".join(r.out[hits[-1]:hits[-1] + 1800].split('<<"TRACE"')[0].split())
    except Exception as e:  # an aid only
        return "(no explanation: %s)" % e
    return ""


def validate(ctx, d, path, what):
    acc, n, detail, r = lib.tlc_validate(ctx, d, MODULE, CFG, path, timeout=1500, env_extra=trace_env())
    obs = len(r.tuples("OBSERVED"))
    if obs:
        ctx.extra["tex_recipient_behind_another_refused"] = ctx.extra.get("tex_recipient_behind_another_refused", 0) + obs
    if acc:
        ctx.traces += n
        return True
    with open(path) as f:
        lines = f.read().splitlines()
    start = max(i for i in range(n) if json.loads(lines[i])["a"] == "reset")
    ev = json.loads(lines[n - 1])
    expect = _explain(ctx, d, lines, start, n)
    if ev.get("a") == "ptex":
        broke = ("a (multi-step) transfer proposal breaks a law of MultiStep.tla / Trace_MultiStep.tla: a step does not balance, a "
                 "reference to an earlier step's output is wrong, a note / coin is selected twice or is not eligible, a TEX recipient is "
                 "paid out of shielded notes, the payments are not the requested ones, the lock state is wrong - or the outcome class is "
                 "not allowed for the request")
    elif ev.get("a") == "ctex":
        broke = ("the transactions create_proposed_transactions stored do not match the proposal's steps (inputs, the ephemeral "
                 "outpoint, the TEX payment, inputs = outputs + fee, expiry) or the ledger / lock state after the call disagrees")
    else:
        broke = "the shielded ledger, the coin ledger or the lock state after the call disagrees with the specification"
    lib.violation(ctx, {"property": ctx.prop, "kind": KIND, "what": what, "first_unmatched_event": n - start,
                        "event": ev, "history": [json.loads(x) for x in lines[start:n]]},
                  "multi-step proposals: event %d of a recorded wallet history (operation '%s') is not a step of "
                  "Trace_MultiStep.tla - %s. logged: %s | specification: %s"
                  % (n - start, ev.get("a"), broke, json.dumps({k: ev[k] for k in ev if k not in ("post", "coins")})[:1600], expect[:1200]))
    return False


NEED = {"ok_two_step": 60, "two_step_two_tex": 5, "two_step_with_shielded_payment": 5, "two_step_with_transparent_payment": 2,
        "two_step_notes_and_coins": 2, "two_step_coins_only": 2, "listed_other_accounts_address_with_coin": 2, "two_step_with_lock": 8, "two_step_through_admitted_lock": 1,
        "two_step_sapling_only": 20, "two_step_several_pools": 1, "two_step_ironwood_era": 5, "ok_single_step": 8, "notes_selected": 80,
        "refused_insufficient_tex": 5, "amount_one_above_balance_refused": 1, "refused_inputs_locked": 1, "created_pairs": 10,
        "created_single": 1, "creates_refused": 1, "first_mined_in_block": 4, "second_mined_in_block": 3, "pair_in_one_block": 1,
        "status_second": 2, "ephemeral_rows_spent_by_second": 10, "untex": 2, "note_lock_ok": 1, "states_with_note_locks": 20,
        "states_with_pending_pair": 10}


def run_part(ctx):
    bindir = lib.cargo_build("h_wallet_t", [BIN])
    d = lib.stage_specs(ctx, AREA)
    lib.sany(os.path.join(d, "Trace_MultiStep.tla"))

    # (1) the specification alone
    mc = model_part(ctx, d)

    # (2) recorded executions of the real wallet (transparent-inputs build), validated by TLC
    plans = [("scenarios", ["tex-scenarios"])]
    plans += [("base", ["tex", 4, 100]), ("ironwood", ["tex", 2, 90, "ironwood"])] if ctx.quick() else \
        [("base%d" % i, ["tex", 16, 120]) for i in range(2)] + [("ironwood", ["tex", 12, 120, "ironwood"])]
    totals = {}
    paths = []
    for i, (name, args) in enumerate(plans):
        path = drive(ctx, bindir, name, args, ctx.seed * 100 + 90 + i)
        st, sample = trace_stats(path)
        for k, v in st.items():
            totals[k] = totals.get(k, 0) + v
        if sample:
            ctx.add_sample(sample)
        paths.append((name, path))
    if ctx.quick():
        allp = ctx.path("mtrace_all.ndjson")
        with open(allp, "w") as out:
            for _, p in paths:
                with open(p) as f:
                    out.write(f.read())
        validate(ctx, d, allp, "+".join(n for n, _ in paths))
    else:
        for name, p in paths:
            if not validate(ctx, d, p, name):
                break
    if not ctx.violations:
        low = {k: totals.get(k, 0) for k, v in NEED.items() if totals.get(k, 0) < v}
        if low:
            raise lib.ToolError("vacuity: the multi-step driver produced too few judged situations: %s" % low)
    totals["model"] = mc
    ctx.extra["multistep_trace_stats"] = totals
    return totals


RULE = ("seeded histories on the real SQLite wallet built with transparent-inputs: the wallet histories of C01 / C08 interleaved with "
        "propose_transfer calls naming ZIP 320 TEX recipients (one, two, next to Sapling / unified / plain transparent recipients; "
        "amounts relative to the balance; every shielded pool / Sapling only / coins only / notes and coins; lock requests and selector "
        "lock policies), create_proposed_transactions on kept proposals (both transactions read back), the environment mining both, only "
        "the first, both in one block, or neither; every step of every proposal must satisfy MultiStep.tla and the eligibility "
        "definitions of single-step proposals; distinct_nontrivial = distinct accepted proposals by (request, selected notes and coins, "
        "policy, sources, admitted owners, tip)")
ASSUMPTIONS = ["multi-step proposals: the only ones the wallet's selector produces are ZIP 320 pairs (at most two steps); three-step "
               "proposals exist in MC_MultiStep.tla and in the validators part only",
               "creation is driven for proposals without Orchard / Ironwood parts (the Sapling provers are mocked) and without coins as "
               "inputs (the change of a transaction with transparent inputs follows the confirmation rule of shielding transactions, "
               "which Eligible does not model)",
               "ephemeral outputs are exempt from the coin ledger comparison: how the wallet accounts for them between the two "
               "transactions is not judged",
               "a request that puts a TEX recipient behind a recipient of another kind is refused by the pinned selector with "
               "PaymentPoolsMismatch (an error, not a proposal: outside C08; counted as tex_recipient_behind_another_refused)",
               "a note-funded request refused for lack of funds carries no claim (as for single-step proposals)"]


def selftest_part(ctx):
    """Binding demonstration: a step's fee, a prior-step value, an input duplicated across steps, an ineligible note, a TEX
    payment moved into the first step, a created transaction's ephemeral outpoint / TEX amount, and a dropped create event
    must be rejected at their events; the spec mutants of MC_MultiStep must be refuted."""
    bindir = lib.cargo_build("h_wallet_t", [BIN])
    d = lib.stage_specs(ctx, AREA)
    model_part(ctx, d)
    path = drive(ctx, bindir, "self", ["tex-scenarios"], 7)
    with open(path) as f:
        lines = f.read().splitlines()
    recs = [json.loads(x) for x in lines]
    env = trace_env()
    acc, n, _, _ = lib.tlc_validate(ctx, d, MODULE, CFG, path, env_extra=env)
    if not acc:
        raise lib.ToolError("selftest (multi-step): the unmodified trace is rejected at %d" % n)

    def expect_reject(name, new_lines, at, what):
        p = ctx.path(name)
        with open(p, "w") as f:
            f.write("\n".join(new_lines) + "\n")
        acc, n, _, _ = lib.tlc_validate(ctx, d, MODULE, CFG, p, env_extra=env)
        if acc or (at is not None and n != at):
            raise lib.ToolError("selftest (multi-step): %s not rejected at event %s (got accepted=%s at %s)" % (what, at, acc, n))
        return n

    def patched(i, fn):
        rec = json.loads(lines[i])
        fn(rec)
        return lines[:i] + [json.dumps(rec)] + lines[i + 1:]

    two = [i for i, r in enumerate(recs) if r["a"] == "ptex" and r["res"] == "ok" and len(r["p"]["steps"]) == 2 and r["lock"][0] < 0]
    i1 = two[0]
    # an accepted two-step proposal that passed over a known note of the wallet
    i2 = [i for i in two if len(recs[i]["post"]["notes"]) > sum(len(s["notes"]) for s in recs[i]["p"]["steps"])][0]

    def fee_second(rec):
        rec["p"]["steps"][1]["fee"] += 1
    expect_reject("ms_fee2.ndjson", patched(i1, fee_second), i1 + 1, "second step's fee off by one")

    def fee_first(rec):
        rec["p"]["steps"][0]["fee"] -= 1
    expect_reject("ms_fee1.ndjson", patched(i1, fee_first), i1 + 1, "first step's fee off by one")

    def fee_shift(rec):       # the total is kept: only the per-step law sees it
        rec["p"]["steps"][0]["fee"] += 5000
        rec["p"]["steps"][1]["fee"] -= 5000
    expect_reject("ms_fee_shift.ndjson", patched(i1, fee_shift), i1 + 1, "fee moved from one step to the other")

    def prior_value(rec):
        rec["p"]["steps"][1]["prior"][0][3] += 1
        rec["p"]["steps"][1]["fee"] += 1
    expect_reject("ms_prior_value.ndjson", patched(i1, prior_value), i1 + 1, "prior-step input valued one zatoshi above the output it names")

    def prior_index(rec):
        rec["p"]["steps"][1]["prior"][0][2] = 0 if rec["p"]["steps"][1]["prior"][0][2] else 1
    expect_reject("ms_prior_index.ndjson", patched(i1, prior_index), i1 + 1, "prior-step input naming another change output")

    def dup_across(rec):       # the second step selects a note of the first again; its value goes to the fee, so every step still balances
        n0 = rec["p"]["steps"][0]["notes"][0]
        rec["p"]["steps"][1]["notes"].append(list(n0))
        rec["p"]["steps"][1]["fee"] += n0[1]
        for p in rec["p"]["steps"][1]["pays"]:
            p["k"] = "t" if p["k"] == "tex" else p["k"]      # (so that only the double selection is wrong)
        for p in rec["pays"]:
            p["k"] = "t" if p["k"] == "tex" else p["k"]
    expect_reject("ms_dup_across.ndjson", patched(i1, dup_across), i1 + 1, "note selected by two steps")

    def tex_direct(rec):       # the TEX recipient paid by the step that spends the notes
        s0, s1 = rec["p"]["steps"]
        s0["pays"] = s0["pays"] + s1["pays"]
        s0["change"] = [c for c in s0["change"] if not c["eph"]]
        s0["fee"] += s1["fee"]
        rec["p"]["steps"] = [s0]
    expect_reject("ms_tex_direct.ndjson", patched(i1, tex_direct), i1 + 1, "TEX recipient paid out of shielded notes in one step")

    def extra_note(rec):       # a note the selector passed over although ... it was not eligible? take any other known note
        used = {n[0] for s in rec["p"]["steps"] for n in s["notes"]}
        cand = [x for x in rec["post"]["notes"] if x["n"] not in used and (x["acct"] != 1 or x["mined"] == -1 or x["sp"])]
        x = cand[0]
        rec["p"]["steps"][0]["notes"].append([x["n"], x["v"], x["pool"]])
        rec["p"]["steps"][0]["fee"] += x["v"]
    cands = [i for i in two if any(x["acct"] != 1 or x["mined"] == -1 or x["sp"] for x in recs[i]["post"]["notes"])]
    if not cands:
        raise lib.ToolError("selftest (multi-step): no two-step proposal made while the wallet held an ineligible note")
    expect_reject("ms_ineligible.ndjson", patched(cands[0], extra_note), cands[0] + 1, "ineligible note added to the first step")

    def pay_amount(rec):
        rec["p"]["steps"][1]["pays"][0]["v"] -= 1
        rec["p"]["steps"][1]["fee"] += 1
    expect_reject("ms_amount.ndjson", patched(i1, pay_amount), i1 + 1, "TEX recipient paid one zatoshi less than requested")

    lk = [i for i, r in enumerate(recs) if r["a"] == "ptex" and r["res"] == "ok" and len(r["p"]["steps"]) == 2 and r["lock"][0] >= 0][0]

    def lock_row(rec):
        rec["post"]["locks"]["rows"] = rec["post"]["locks"]["rows"][1:]
    expect_reject("ms_lock_row.ndjson", patched(lk, lock_row), lk + 1, "a selected note left unlocked by a lock request")

    ci = [i for i, r in enumerate(recs) if r["a"] == "ctex" and r["res"] == "ok" and len(r["txs"]) == 2][0]

    def eph_outpoint(rec):      # the second transaction spends another outpoint of the first
        v = rec["txs"][1]["vin"][0]
        v["n"] += 1
        v["k"] = "none"
        v["v"] = -1
    expect_reject("ms_outpoint.ndjson", patched(ci, eph_outpoint), ci + 1, "second transaction not spending the ephemeral outpoint")

    def tex_paid(rec):
        rec["txs"][1]["vout"][0]["v"] -= 1
    expect_reject("ms_tex_paid.ndjson", patched(ci, tex_paid), ci + 1, "second transaction paying the TEX recipient less than the step says")

    def tex_script(rec):
        rec["txs"][1]["vout"][0]["ad"] = 3 - rec["txs"][1]["vout"][0]["ad"]
    expect_reject("ms_tex_script.ndjson", patched(ci, tex_script), ci + 1, "second transaction paying another TEX script")

    def first_nf(rec):
        rec["txs"][0]["nf_missing"] = 1
    expect_reject("ms_nf.ndjson", patched(ci, first_nf), ci + 1, "first transaction not revealing a selected note's nullifier")

    def expiry2(rec):
        rec["txs"][1]["exp"] += 1
    expect_reject("ms_exp2.ndjson", patched(ci, expiry2), ci + 1, "second transaction expiring elsewhere")

    n = expect_reject("ms_dropped_create.ndjson", lines[:ci] + lines[ci + 1:], None, "dropped create event")
    lib.log("selftest (multi-step) ok: per-step fee (either step, and shifted between steps), prior-step value and index, note selected by "
            "two steps, direct TEX payment, ineligible note, TEX amount, lock row, ephemeral outpoint, TEX amount / script of the created "
            "transaction, nullifier, expiry rejected at their events; dropped create event rejected at %d; probes and spec mutants refuted" % n)


def replay_part(ctx, rep):
    lib.cargo_build("h_wallet_t", [BIN])
    d = lib.stage_specs(ctx, AREA)
    tp = ctx.path("multistep_replay_trace.ndjson")
    with open(tp, "w") as f:
        for e in rep["history"]:
            f.write(json.dumps(e) + "\n")
    if validate(ctx, d, tp, "replay"):
        lib.log("replay: the recorded history is accepted by the specification")
