"""C16 — pool-migration denomination plans are canonical 1-2-5 and conserve value.

spec/Migration/Denomination.tla states the rule (denomination series, canonical split with the
optimistic ceil(k/F) fee reservation and the single-note exact-funding case, reconcile loop) with
the preparation-cost oracle as an *adversarial environment*; TLC checks the property's theorems for
every oracle behaviour over small constants.

R (spec -> code, exact, no abstraction): every completed behaviour TLC prints (parameters, balance,
oracle answers, predicted plan) is executed on the real `CanonicalOneTwoFive::new(<same small
parameters>).plan(..)` with a scripted oracle; crossing values, notes, change, fees, totals and the
oracle questions are compared exactly, under four RNGs and several note counts of the same class.
L125.tla is replayed on `largest_one_two_five`.

V (code -> spec, normative scale): c16_driver calls `plan_denominations` (real ZIP 318 constants) and
`from_stored_parts`, `largest_one_two_five`, `is_canonical_denomination` at every denomination
boundary +- deltas, note-count fee steps, MAX_MONEY and seeded random points under refusing,
over-charging and inconsistent oracles; Trace_Denomination.tla re-evaluates the rule in DecNat
(decimal digit sequences) on every line.  MC_DenominationEquiv ties the DecNat restatement to the native
rule; MC_DecNat ties DecNat to native arithmetic.
"""
import concurrent.futures
import json
import os
import random

from . import lib

AREA = "Migration"
ACTIONS = ["Quantize", "Empty", "Answer"]
BINS = ["c16_replay", "c16_driver"]


# ------------------------------------------------------------------------------------------------
# configurations

def tla_set(xs):
    return "{" + ", ".join(str(x) for x in sorted(set(xs))) + "}"


def write_cfg(path, c, emit=False, invariant="Theorems", props=True, extra_consts=""):
    """c: dict(min, max, lo, hi, extra, buffers, fees, caps, answers)"""
    with open(path, "w") as f:
        f.write("SPECIFICATION Spec\nCONSTANTS\n")
        f.write("  MinDenom = %d\n  MaxDenom = %d\n  F = 14\n" % (c["min"], c["max"]))
        f.write("  Totals <- MCTotals\n  TotalLo = %d\n  TotalHi = %d\n  TotalExtra = %s\n"
                % (c.get("lo", 1), c.get("hi", 0), tla_set(c.get("extra", []))))
        f.write("  Buffers = %s\n  Fees = %s\n  Caps = %s\n  Answers = %s\n"
                % (tla_set(c["buffers"]), tla_set(c["fees"]), tla_set(c["caps"]), tla_set(c["answers"])))
        f.write("  Emit = %s\n" % ("TRUE" if emit else "FALSE"))
        f.write(extra_consts)
        f.write("VIEW View\n")
        if invariant:
            f.write("INVARIANT %s\n" % invariant)
        if props and not emit:
            f.write("PROPERTY SplitFixed\n")
        f.write("CHECK_DEADLOCK FALSE\n")


def tlc_named(ctx, d, base, name, cfg, **kw):
    """lib.tlc on a wrapper module `<base>_<name>` (EXTENDS base): every concurrent run gets its own
    module name and therefore its own metadir."""
    mod = "%s_%s" % (base, name)
    with open(os.path.join(d, mod + ".tla"), "w") as f:
        f.write("---- MODULE %s ----\nEXTENDS %s\n====\n" % (mod, base))
    return lib.tlc(ctx, d, mod, cfg, **kw)


def odd_seed(ctx):
    return ctx.seed % 2 == 1


def mc_configs(ctx):
    q = ctx.quick()
    return [
        # every denomination boundary of the series 1..1000, beyond the maximum (2 x 1000 + 500)
        ("main", dict(min=1, max=1000, lo=0, hi=1060 if q else 2600,
                      extra=list(range(1995, 2012)) + list(range(2495, 2512)) if q else [],
                      buffers=[0, 1, 3] if q else [0, 1, 2, 3], fees=[0, 1, 3] if q else [0, 1, 2, 3],
                      # (splits in this domain have at most 12 parts: caps 13, 15, 29 coincide)
                      caps=[1, 2, 3, 29] if q else [1, 2, 3, 13, 15, 29], answers=[0, 1, 2, 3])),
        # many notes: the fee steps at multiples of F = 14 and the caps around them
        # (quick: the 15-note step on odd seeds, the 29-note step on even seeds)
        ("many", dict(min=1, max=5, lo=(60 if odd_seed(ctx) else 130) if q else 0,
                      hi=(100 if odd_seed(ctx) else 180) if q else 260, buffers=[0, 1], fees=[0, 1, 3],
                      caps=([13, 14, 15, 64] if odd_seed(ctx) else [28, 29, 64]) if q else [13, 14, 15, 28, 29, 64],
                      answers=[0, 1, 2, 3, 4])),
        # another floor, a maximum that is not itself a denomination
        ("floor", dict(min=10, max=700, lo=0, hi=800 if q else 1700, buffers=[0, 3], fees=[0, 2],
                       caps=[1, 3, 29], answers=[0, 1, 2])),
    ]


def boundary_totals(denoms, top, rng, n_random, hi_random):
    t = set(range(0, 41))
    for d in denoms:
        t.update(range(max(0, d - 1), d + 9))
    for d in top:
        t.update(range(d - 1, d + 11))
    for _ in range(n_random):
        t.add(rng.randrange(0, hi_random + 1))
    return sorted(t)


def emit_configs(ctx):
    """Slices whose completed behaviours are printed and replayed on the real code."""
    rng = random.Random(ctx.seed * 7919 + 16)
    series = [m * 10 ** j for j in range(4) for m in (1, 2, 5) if m * 10 ** j <= 1000]
    out = []
    if ctx.quick():
        out.append(("A", dict(min=1, max=1000, extra=boundary_totals(series, [2000, 2500], rng, 40, 2600),
                              buffers=[0, 1, 3], fees=[0, 1, 3], caps=[1, 2, 3, 29], answers=[0, 1, 2, 3])))
        # the 15-note fee step on odd seeds, the 29-note step on even seeds (V covers both every run)
        many = set(range(64, 93)) if odd_seed(ctx) else set(range(136, 178))
        out.append(("B", dict(min=1, max=5, extra=sorted(many), buffers=[0, 1], fees=[0, 3],
                              caps=[14, 15, 29] if odd_seed(ctx) else [28, 29, 64], answers=[0, 1, 2, 3, 4])))
        fl = [10 * x for x in series if 10 * x <= 700]
        out.append(("C", dict(min=10, max=700, extra=boundary_totals(fl, [1400], rng, 20, 1700),
                              buffers=[0, 3], fees=[0, 2], caps=[1, 3, 29], answers=[0, 1, 2])))
    else:
        for lo in range(0, 2601, 260):
            out.append(("A%d" % lo, dict(min=1, max=1000, lo=lo, hi=min(lo + 259, 2600),
                                         buffers=[0, 1, 2, 3], fees=[0, 1, 3], caps=[1, 2, 3, 29],
                                         answers=[0, 1, 2, 3])))
        for lo in range(0, 261, 45):
            out.append(("B%d" % lo, dict(min=1, max=5, lo=lo, hi=min(lo + 44, 260), buffers=[0, 1], fees=[0, 1, 3],
                                         caps=[13, 14, 15, 28, 29, 64], answers=[0, 1, 2, 3, 4])))
        out.append(("C", dict(min=10, max=700, lo=0, hi=1700, buffers=[0, 3], fees=[0, 2], caps=[1, 3, 29],
                              answers=[0, 1, 2])))
    return out


# ------------------------------------------------------------------------------------------------
# R

def run_replay(bindir, path):
    p = lib.run_bin(os.path.join(bindir, "c16_replay"), [path], timeout=1800)
    return json.loads(p.stdout.strip().splitlines()[-1])


def judge_replay(ctx, res):
    for m in res["mismatches"][:3]:
        case = m["case"]
        if "hi" in case:
            lib.violation(ctx, {"property": "C16", "kind": "l125_case", "case": case}, m["what"])
        else:
            lib.violation(ctx, {"property": "C16", "kind": "plan_case", "case": case, "got": m.get("got")},
                          "plan(total=%s, single=%s, fee=%s; min=%s max=%s buffer=%s cap=%s) with oracle answers %s: %s"
                          % (case["total"], case["single"], case["fee"], case["minDenom"], case["maxDenom"],
                             case["buffer"], case["cap"], case["answers"], m["what"]))


def case_stats(cases, st):
    for c in cases:
        st["cases"] += 1
        a = c["answers"]
        if c["single"] and len(c["split"]) == 1 and c["split"][0] + c["buffer"] == c["total"]:
            st["single_exact"] += 1
        if -1 in a[:-1] or (a and a[-1] == -1):
            st["refused_none"] += 1
        if any(x >= 0 for x in a[:-1]):
            st["refused_overcharge"] += 1
        if len(c["crossings"]) < len(c["split"]):
            st["dropped"] += 1
        if len(c["split"]) == c["cap"]:
            st["cap_reached"] += 1
        if len(c["split"]) > 14:
            st["second_fee_step"] += 1
        if c["change"] == 0:
            st["no_change"] += 1
        if c["n"] > 0:
            st["fees_reserved"] += 1


def replay_direction(ctx, d, bindir):
    st = {k: 0 for k in ["cases", "single_exact", "refused_none", "refused_overcharge", "dropped", "cap_reached",
                         "second_fee_step", "no_change", "fees_reserved"]}
    total_cases = 0
    distinct = 0
    for name, c in emit_configs(ctx):
        cfg = "Emit_%s.cfg" % name
        write_cfg(os.path.join(d, cfg), c, emit=True, invariant=None)
        r = tlc_named(ctx, d, "MC_Denomination", "emit" + name, cfg, workers=1, timeout=2400, coverage=False)
        cases = r.prints("CASE")
        r.out = ""
        if not cases:
            raise lib.ToolError("no cases emitted by %s" % cfg)
        path = ctx.path("cases_%s.ndjson" % name)
        with open(path, "w") as f:
            for e in cases:
                f.write(json.dumps(e) + "\n")
        case_stats(cases, st)
        res = run_replay(bindir, path)
        if res["cases"] != len(cases):
            raise lib.ToolError("replay consumed %d of %d cases" % (res["cases"], len(cases)))
        judge_replay(ctx, res)
        total_cases += res["cases"]
        distinct += res["distinct_results"]
        lib.log("[replay] %s: %d cases, %d runs, %d mismatches, %d distinct plans"
                % (name, res["cases"], res["runs"], res["n_mismatches"], res["distinct_results"]))
        mid = cases[len(cases) // 2]
        ctx.add_sample({"direction": "R", "params": {k: mid[k] for k in ("minDenom", "maxDenom", "buffer", "cap", "fee",
                                                                      "total", "single")},
                        "oracle_answers": mid["answers"], "expected_crossings": mid["crossings"],
                        "expected_change": mid["change"], "expected_prep_fees": mid["prepFees"]}, cap=3)
    # vacuity guard on what was actually replayed
    for k, v in st.items():
        if v == 0:
            raise lib.ToolError("vacuity: no replayed case of kind %s" % k)
    # L125
    cfg = "Emit_L125.cfg"
    with open(os.path.join(d, cfg), "w") as f:
        f.write("SPECIFICATION Spec\nCONSTANTS\n  HiMax = %d\n  Floors = {1, 10, 100}\n  Emit = TRUE\nCHECK_DEADLOCK FALSE\n"
                % (2600 if ctx.quick() else 12000))
    r = tlc_named(ctx, d, "L125", "emit", cfg, workers=1, timeout=900, coverage=False)
    rows = r.prints("L125")
    if not rows:
        raise lib.ToolError("no L125 rows emitted")
    path = ctx.path("cases_l125.ndjson")
    with open(path, "w") as f:
        for e in rows:
            f.write(json.dumps(e) + "\n")
    res = run_replay(bindir, path)
    if res["l125"] != len(rows):
        raise lib.ToolError("replay consumed %d of %d L125 rows" % (res["l125"], len(rows)))
    judge_replay(ctx, res)
    lib.log("[replay] L125: %d rows, %d mismatches" % (res["l125"], res["n_mismatches"]))
    return total_cases + len(rows), distinct, st


# ------------------------------------------------------------------------------------------------
# V

def write_chunk(path, recs, base, stride=1):
    with open(path, "w") as f:
        f.write(json.dumps({"a": "chunk", "base": base, "stride": stride, "count": len(recs)}) + "\n")
        for r in recs:
            f.write(json.dumps(r) + "\n")


def validate_chunks(ctx, d, chunks):
    """chunks: list of (name, path, recs). Validated in parallel, one single-worker TLC each (wrapper
    modules give each run its own module name, hence its own metadir).
    Returns list of (name, accepted, idx, detail)."""
    for name, _, _ in chunks:
        with open(os.path.join(d, "Trace_Denomination_%s.tla" % name), "w") as f:
            f.write("---- MODULE Trace_Denomination_%s ----\nEXTENDS Trace_Denomination\n====\n" % name)

    def one(ch):
        name, path, recs = ch
        acc, n, detail, res = lib.tlc_validate(ctx, d, "Trace_Denomination_%s" % name, "Trace_Denomination.cfg", path,
                                               timeout=2400, xmx="3g")
        res.out = ""
        return name, acc, n, detail

    with concurrent.futures.ThreadPoolExecutor(max_workers=6) as ex:
        return list(ex.map(one, chunks))


def describe(rec):
    def num(dg):
        return "".join(str(x) for x in reversed(dg)) or "0"
    a = rec.get("a")
    if a == "plan":
        return ("%s(total=%s, note_count=%s, cap=%s, buffer=%s, fee=%s; min=10^%s max=%s) oracle %s answers %s -> "
                "outcome %s crossings %s change %s prep_fees %s rngSame=%s ncSame=%s storedSame=%s"
                % (rec["via"], num(rec["total"]), rec["nc"], rec["cap"], num(rec["buffer"]), num(rec["fee"]),
                   rec["minExp"], num(rec["maxDenom"]), rec.get("oracle"), ["None" if a == [-1] else num(a) for a in rec["answers"][:12]], rec["outcome"],
                   [num(c) for c in rec["crossings"]][:12], num(rec["change"]), num(rec["prepFees"]),
                   rec["rngSame"], rec["ncSame"], rec["storedSame"]))
    if a == "stored":
        return ("from_stored_parts(crossings=%s, buffer=%s, ..) -> %s"
                % ([num(c) for c in rec["crossings"]], num(rec["buffer"]), rec["result"]))
    if a == "l125":
        return "largest_one_two_five(%s, 10^%s) -> %s (%s)" % (num(rec["hi"]), rec["floorExp"], num(rec["out"]), rec["outcome"])
    if a == "canon":
        return "is_canonical_denomination(%s) -> %s (%s)" % (num(rec["v"]), rec["out"], rec["outcome"])
    return json.dumps(rec)[:300]


def trace_direction(ctx, d, bindir):
    trace = ctx.path("trace.ndjson")
    p = lib.run_bin(os.path.join(bindir, "c16_driver"), [trace, ctx.tier], env_extra={"VERIF_SEED": str(ctx.seed)},
                    timeout=1200)
    with open(trace) as f:
        recs = [json.loads(l) for l in f if l.strip()]
    if not recs:
        raise lib.ToolError("driver wrote no events")
    # vacuity guard on the trace
    kinds = {}
    for r in recs:
        k = r["a"]
        if k == "plan":
            k = "plan_nonempty" if r["crossings"] else "plan_empty"
            if any(len(a) > 12 for a in r["answers"]):
                kinds["plan_fee_overflow_answer"] = kinds.get("plan_fee_overflow_answer", 0) + 1
            if len(r["answers"]) > 1:
                kinds["plan_with_refusals"] = kinds.get("plan_with_refusals", 0) + 1
            if len(r["crossings"]) >= 15:
                kinds["plan_15_or_more_notes"] = kinds.get("plan_15_or_more_notes", 0) + 1
            if r["nc"] == 1 and len(r["q0"]) == 1 and r["q0"][0] == r["total"]:
                kinds["plan_single_exact"] = kinds.get("plan_single_exact", 0) + 1
        elif k == "stored":
            k = "stored_" + r["result"]
        kinds[k] = kinds.get(k, 0) + 1
    for need in ["plan_nonempty", "plan_empty", "plan_with_refusals", "plan_15_or_more_notes", "plan_single_exact",
                 "plan_fee_overflow_answer", "stored_ok", "stored_overflow", "l125", "canon"]:
        if not kinds.get(need):
            raise lib.ToolError("vacuity: the driver produced no %s line" % need)
    # strided chunks, so that the expensive many-note lines spread evenly
    nch = 6
    chunks = []
    for i in range(nch):
        part = recs[i::nch]
        if part:
            path = ctx.path("trace_c%d.ndjson" % i)
            write_chunk(path, part, part[0]["seq"] - nch, nch)
            chunks.append(("c%d" % i, path, part))
    validated = 0
    for (name, acc, n, detail), (_, path, part) in zip(validate_chunks(ctx, d, chunks), chunks):
        if acc:
            validated += n - 1
            continue
        idx = n - 2           # line 1 of the file is the header
        if idx < 0 or idx >= len(part):
            raise lib.ToolError("trace chunk %s rejected at its header (line count mismatch)" % name)
        rec = part[idx]
        validated += idx
        lib.violation(ctx, {"property": "C16", "kind": "trace_line", "record": rec, "seed": ctx.seed, "tier": ctx.tier},
                      "the specification rejects line %d of the trace: %s" % (rec["seq"], describe(rec)))
    for r in recs:
        if r["a"] == "plan" and r["crossings"] and len(r["answers"]) > 1:
            ctx.add_sample({"direction": "V", "line": describe(r)[:600]}, cap=5)
            break
    lib.log("[trace] %d lines validated; kinds %s" % (validated, kinds))
    return validated, kinds


# ------------------------------------------------------------------------------------------------

def sany_all(d):
    for m in ["Denomination", "MC_Denomination", "DenominationD", "Trace_Denomination", "MC_DenominationEquiv", "L125",
              "DecNat", "MC_DecNat"]:
        lib.sany(os.path.join(d, m + ".tla"))


def mc_main(ctx, d, workers):
    """The theorems for every oracle behaviour, main domain."""
    name, c = mc_configs(ctx)[0]
    cfg = "MC_%s.cfg" % name
    write_cfg(os.path.join(d, cfg), c)
    r = tlc_named(ctx, d, "MC_Denomination", name, cfg, workers=workers, timeout=3000)
    lib.require_coverage(r, ACTIONS)
    r.out = ""
    return [r]


def mc_rest(ctx, d, workers):
    """The other domains, DecNat vs native arithmetic, DecNat restatement == native rule, L125."""
    res = []
    for name, c in mc_configs(ctx)[1:]:
        cfg = "MC_%s.cfg" % name
        write_cfg(os.path.join(d, cfg), c)
        r = tlc_named(ctx, d, "MC_Denomination", name, cfg, workers=workers, timeout=3000)
        lib.require_coverage(r, ACTIONS)
        r.out = ""
        res.append(r)
    with open(os.path.join(d, "MC_DecNat_run.cfg"), "w") as f:
        f.write("SPECIFICATION Spec\nCONSTANTS\n  Bound = %d\nINVARIANT Laws\nCHECK_DEADLOCK FALSE\n"
                % (110 if ctx.quick() else 420))
    res.append(lib.tlc(ctx, d, "MC_DecNat", "MC_DecNat_run.cfg", workers=workers, timeout=1800, coverage=False))
    eq = [("eq0", dict(min=1, max=100, extra=list(range(0, 24)) + [49, 50, 51, 53, 99, 100, 101, 104, 105, 199, 200,
                                                                  201, 210, 250, 251, 260],
                       buffers=[0, 1, 3], fees=[0, 1, 3], caps=[1, 2, 29], answers=[0, 1, 2, 3]), 0)]
    if not ctx.quick():
        eq.append(("eq1", dict(min=10, max=700, lo=0, hi=400, buffers=[0, 3], fees=[0, 2], caps=[1, 3, 29],
                               answers=[0, 1, 2]), 1))
        eq.append(("eq2", dict(min=1, max=5, lo=60, hi=100, buffers=[0, 1], fees=[0, 3], caps=[14, 15, 29],
                               answers=[0, 1, 2, 3]), 0))
    for name, c, minexp in eq:
        cfg = "MC_%s.cfg" % name
        write_cfg(os.path.join(d, cfg), c, invariant="Equiv", props=False, extra_consts="  MinExp = %d\n" % minexp)
        # MC_DenominationEquivW: MC_DenominationEquiv + the range/extra constants of MC_Denomination
        r = tlc_named(ctx, d, "MC_DenominationEquivW", name, cfg, workers=workers, timeout=3000)
        lib.require_coverage(r, ACTIONS)
        r.out = ""
        res.append(r)
    with open(os.path.join(d, "MC_L125_run.cfg"), "w") as f:
        f.write("SPECIFICATION Spec\nCONSTANTS\n  HiMax = %d\n  Floors = {1, 10, 100}\n  Emit = FALSE\nINVARIANT Law\n"
                "CHECK_DEADLOCK FALSE\n" % (2600 if ctx.quick() else 12000))
    r = tlc_named(ctx, d, "L125", "mc", "MC_L125_run.cfg", workers=workers, timeout=900)
    lib.require_coverage(r, ["Eval"])
    res.append(r)
    return res


def stage(ctx):
    d = lib.stage_specs(ctx, AREA)
    # wrapper giving MC_DenominationEquiv the range/extra constants of MC_Denomination
    with open(os.path.join(d, "MC_DenominationEquivW.tla"), "w") as f:
        f.write("---- MODULE MC_DenominationEquivW ----\nEXTENDS MC_DenominationEquiv\nCONSTANTS TotalLo, TotalHi, TotalExtra\n"
                "MCTotals == (TotalLo..TotalHi) \\cup TotalExtra\n====\n")
    return d


def run(ctx):
    bindir = lib.cargo_build("h_tx", BINS)
    d = stage(ctx)
    sany_all(d)
    # three lanes side by side, 8 TLC workers in all: the main model-checking run, the other
    # model-checking runs, and behaviour emission (single worker by construction) + replay
    with concurrent.futures.ThreadPoolExecutor(max_workers=3) as ex:
        f_main = ex.submit(mc_main, ctx, d, 4)
        f_rest = ex.submit(mc_rest, ctx, d, 3)
        f_rep = ex.submit(replay_direction, ctx, d, bindir)
        mc_results = f_main.result() + f_rest.result()
        n_replayed, distinct, st = f_rep.result()
    for r in mc_results:
        lib.account_tlc(ctx, r)
    n_lines, kinds = trace_direction(ctx, d, bindir)
    ctx.traces = n_replayed + n_lines
    ctx.extra["replay_case_kinds"] = st
    ctx.extra["trace_line_kinds"] = kinds
    lib.mc_evidence(
        ctx,
        rule="R: every completed behaviour (input x adversarial oracle answer sequence) of Denomination.tla within "
             "the emitted slices is executed on the real CanonicalOneTwoFive::new(same parameters).plan with a "
             "scripted oracle, under 4 RNGs and 4 note counts, compared exactly; V: every line the driver logged "
             "from plan_denominations / from_stored_parts / largest_one_two_five / is_canonical_denomination at the "
             "normative scale is re-evaluated by TLC in DecNat. distinct_nontrivial = distinct plans "
             "(crossing vector, change, fees) the real code produced in R",
        evaluations=n_replayed + n_lines, distinct_nontrivial=distinct,
        extra={"exhaustive": True,
               "bounds": {name: {k: (v if not isinstance(v, list) or len(v) < 12 else "%d values" % len(v))
                                 for k, v in c.items()} for name, c in mc_configs(ctx)}},
        assumptions=["min_denomination is a power of ten (documented precondition of CanonicalOneTwoFive::new)",
                     "F = FUNDING_OUTPUTS_PER_TX = 14 is restated in the specification, not read from the code",
                     "the oracle is consulted once per candidate prefix, in order (the documented reconcile loop); "
                     "engine::plan_migration's preview is not exercised"])


def replay(ctx, path):
    bindir = lib.cargo_build("h_tx", BINS)
    with open(path) as f:
        rep = json.load(f)
    if rep["kind"] in ("plan_case", "l125_case"):
        ep = ctx.path("replay_case.ndjson")
        with open(ep, "w") as f:
            f.write(json.dumps(rep["case"]) + "\n")
        res = run_replay(bindir, ep)
        judge_replay(ctx, res)
        if not res["mismatches"]:
            lib.log("replay: the case now agrees with the specification")
        return
    # trace line: re-execute the recorded call (logged oracle answers as the script), validate the fresh line
    d = stage(ctx)
    src = ctx.path("replay_in.ndjson")
    with open(src, "w") as f:
        f.write(json.dumps(rep["record"]) + "\n")
    out = ctx.path("replay_out.ndjson")
    lib.run_bin(os.path.join(bindir, "c16_driver"), ["--replay", src, out])
    with open(out) as f:
        recs = [json.loads(l) for l in f if l.strip()]
    path2 = ctx.path("replay_chunk.ndjson")
    write_chunk(path2, recs, 0)
    (name, acc, n, detail), = validate_chunks(ctx, d, [("r", path2, recs)])
    if acc:
        lib.log("replay: the recorded call is now accepted by the specification")
    else:
        rec = recs[max(0, n - 2)]
        lib.violation(ctx, {"property": "C16", "kind": "trace_line", "record": rec, "seed": rep.get("seed"),
                            "tier": rep.get("tier")},
                      "the specification rejects the re-executed call: %s" % describe(rec))


def selftest(ctx):
    """Binding demonstration. R: a perturbed expectation must be reported by the harness.
    V: a corrupted field must be rejected at its line, a dropped line must be rejected."""
    bindir = lib.cargo_build("h_tx", BINS)
    d = stage(ctx)
    # --- R
    c = dict(min=1, max=1000, extra=[0, 7, 18, 53, 101, 1003], buffers=[0, 1], fees=[0, 3], caps=[2, 29], answers=[0, 1, 2])
    write_cfg(os.path.join(d, "Emit_self.cfg"), c, emit=True, invariant=None)
    r = lib.tlc(ctx, d, "MC_Denomination", "Emit_self.cfg", workers=1, timeout=600, coverage=False)
    cases = r.prints("CASE")
    good = ctx.path("self_good.ndjson")
    with open(good, "w") as f:
        for e in cases:
            f.write(json.dumps(e) + "\n")
    res = run_replay(bindir, good)
    if res["n_mismatches"] or res["cases"] != len(cases):
        raise lib.ToolError("selftest: unperturbed cases do not replay cleanly")
    pick = [e for e in cases if len(e["crossings"]) >= 2 and e["change"] > 0]
    if not pick:
        raise lib.ToolError("selftest: no suitable case")
    perturbations = []
    e = json.loads(json.dumps(pick[0])); e["change"] += 1; perturbations.append(("change", e))
    e = json.loads(json.dumps(pick[0])); e["crossings"][-1] = 1 if e["crossings"][-1] != 1 else 2; perturbations.append(("crossing", e))
    e = json.loads(json.dumps(pick[0])); e["prepFees"] += 1; perturbations.append(("prepFees", e))
    e = json.loads(json.dumps(pick[0])); e["answers"] = e["answers"] + [0]; perturbations.append(("question count", e))
    for what, e in perturbations:
        ep = ctx.path("self_bad.ndjson")
        with open(ep, "w") as f:
            f.write(json.dumps(e) + "\n")
        res = run_replay(bindir, ep)
        if not res["n_mismatches"]:
            raise lib.ToolError("selftest: perturbed %s was not reported by the replay harness" % what)
    lib.log("selftest R ok: %d perturbed expectations reported" % len(perturbations))
    # --- V
    trace = ctx.path("self_trace.ndjson")
    lib.run_bin(os.path.join(bindir, "c16_driver"), [trace, "quick"], env_extra={"VERIF_SEED": str(ctx.seed)})
    with open(trace) as f:
        allrecs = [json.loads(l) for l in f if l.strip()]
    # a small mixed sample: some plans with several parts, stored / l125 / canon lines
    plans = [r for r in allrecs if r["a"] == "plan" and 2 <= len(r["crossings"]) <= 12][:40]
    others = []
    for kind in ("stored", "l125", "canon"):
        others += [r for r in allrecs if r["a"] == kind][:15]
    recs = plans + others
    for i, r in enumerate(recs):
        r["seq"] = i + 1
    if len(plans) < 10:
        raise lib.ToolError("selftest: too few plan lines")

    def verdict(name, rs, header_count=None):
        path = ctx.path("self_%s.ndjson" % name)
        with open(path, "w") as f:
            f.write(json.dumps({"a": "chunk", "base": 0, "stride": 1,
                                "count": header_count if header_count is not None else len(rs)}) + "\n")
            for r in rs:
                f.write(json.dumps(r) + "\n")
        (nm, acc, n, detail), = validate_chunks(ctx, d, [(name, path, rs)])
        return acc, n

    acc, n = verdict("good", recs)
    if not acc:
        raise lib.ToolError("selftest: the uncorrupted sample is rejected at line %d" % n)
    k = 7   # 0-based index of the corrupted plan line; file line k + 2

    def bump(dg):
        x = list(dg); x[0] = (x[0] + 1) % 10; return x

    corruptions = [
        ("change", lambda r: r.__setitem__("change", bump(r["change"]))),
        ("crossing", lambda r: r["crossings"].__setitem__(0, bump(r["crossings"][0]))),
        ("prepFees", lambda r: r.__setitem__("prepFees", bump(r["prepFees"]))),
        ("rngSame", lambda r: r.__setitem__("rngSame", False)),
        ("total", lambda r: r.__setitem__("total", bump(r["total"]))),
    ]
    for what, fn in corruptions:
        rs = json.loads(json.dumps(recs))
        fn(rs[k])
        acc, n = verdict("bad", rs)
        if acc or n != k + 2:
            raise lib.ToolError("selftest: corrupted %s at line %d: accepted=%s, rejected line=%s" % (what, k + 2, acc, n))
    # a stored line whose verdict is flipped
    si = next(i for i, r in enumerate(recs) if r["a"] == "stored")
    rs = json.loads(json.dumps(recs))
    rs[si]["result"] = "overflow" if rs[si]["result"] == "ok" else "ok"
    acc, n = verdict("bad", rs)
    if acc or n != si + 2:
        raise lib.ToolError("selftest: flipped from_stored_parts verdict not rejected at its line")
    # dropped lines: in the middle (sequence gap) and at the end (header count)
    rs = recs[:5] + recs[6:]
    acc, n = verdict("drop", rs, header_count=len(rs))
    if acc or n != 7:
        raise lib.ToolError("selftest: dropped line not rejected where the gap is (accepted=%s line=%s)" % (acc, n))
    acc, n = verdict("drop", recs[:-1], header_count=len(recs))
    if acc:
        raise lib.ToolError("selftest: dropped last line not rejected")
    lib.log("selftest V ok: %d corrupted fields rejected at their line, dropped lines rejected" % (len(corruptions) + 1))
